// Package schemas builds OVSDB schemas and matching run-time model types
// (reflect.StructOf), so column types can be enumerated instead of hand-picked.
package schemas

import (
	"encoding/json"
	"fmt"
	"reflect"
	"sort"
	"strings"

	"github.com/ovn-org/libovsdb/model"
	"github.com/ovn-org/libovsdb/ovsdb"
)

// DB bundles a schema with run-time model types.
type DB struct {
	Name    string
	JSON    string
	Schema  ovsdb.DatabaseSchema
	Types   map[string]reflect.Type // table -> *struct type
	Indexes map[string][]model.ClientIndex
}

// FieldName is the struct field holding a column.
func FieldName(col string) string {
	if col == "_uuid" {
		return "UUID"
	}
	var b strings.Builder
	b.WriteString("F_")
	for _, c := range col {
		if (c >= 'a' && c <= 'z') || (c >= 'A' && c <= 'Z') || (c >= '0' && c <= '9') {
			b.WriteRune(c)
		} else {
			b.WriteByte('_')
		}
	}
	return b.String()
}

// Build parses a schema and creates one struct type per table.
func Build(schemaJSON string, clientIndexes map[string][]model.ClientIndex) (*DB, error) {
	var s ovsdb.DatabaseSchema
	if err := json.Unmarshal([]byte(schemaJSON), &s); err != nil {
		return nil, fmt.Errorf("schema: %w", err)
	}
	d := &DB{Name: s.Name, JSON: schemaJSON, Schema: s, Types: map[string]reflect.Type{}, Indexes: clientIndexes}
	for tname, t := range s.Tables {
		fields := []reflect.StructField{{Name: "UUID", Type: reflect.TypeOf(""), Tag: `ovsdb:"_uuid"`}}
		var cols []string
		for c := range t.Columns {
			cols = append(cols, c)
		}
		sort.Strings(cols)
		for _, c := range cols {
			fields = append(fields, reflect.StructField{
				Name: FieldName(c), Type: ovsdb.NativeType(t.Columns[c]),
				Tag: reflect.StructTag(fmt.Sprintf(`ovsdb:"%s"`, c)),
			})
		}
		d.Types[tname] = reflect.PtrTo(reflect.StructOf(fields))
	}
	return d, nil
}

// MustBuild panics on error.
func MustBuild(schemaJSON string, clientIndexes map[string][]model.ClientIndex) *DB {
	d, err := Build(schemaJSON, clientIndexes)
	if err != nil {
		panic(err)
	}
	return d
}

// NewModel returns a zero model for table.
func (d *DB) NewModel(table string) model.Model {
	return reflect.New(d.Types[table].Elem()).Interface()
}

// ClientDBModel builds the client model.
func (d *DB) ClientDBModel() model.ClientDBModel {
	models := map[string]model.Model{}
	for t := range d.Types {
		models[t] = d.NewModel(t)
	}
	c, err := model.NewClientDBModel(d.Name, models)
	if err != nil {
		panic(err)
	}
	if d.Indexes != nil {
		c.SetIndexes(d.Indexes)
	}
	return c
}

// DBModel builds the full database model.
func (d *DB) DBModel() model.DatabaseModel {
	m, errs := model.NewDatabaseModel(d.Schema, d.ClientDBModel())
	if len(errs) > 0 {
		panic(fmt.Sprintf("dbmodel: %v", errs))
	}
	return m
}

// Set sets column col of model m to native value v.
func Set(m model.Model, col string, v interface{}) {
	f := reflect.ValueOf(m).Elem().FieldByName(FieldName(col))
	if v == nil {
		f.Set(reflect.Zero(f.Type()))
		return
	}
	f.Set(reflect.ValueOf(v))
}

// Get reads column col of model m.
func Get(m model.Model, col string) interface{} {
	return reflect.ValueOf(m).Elem().FieldByName(FieldName(col)).Interface()
}

// Tables returns sorted table names.
func (d *DB) Tables() []string {
	var ts []string
	for t := range d.Schema.Tables {
		ts = append(ts, t)
	}
	sort.Strings(ts)
	return ts
}

// Columns returns sorted column names of a table.
func (d *DB) Columns(table string) []string {
	var cs []string
	for c := range d.Schema.Tables[table].Columns {
		cs = append(cs, c)
	}
	sort.Strings(cs)
	return cs
}
