// Package canon renders native libovsdb values, models and tables canonically
// (sets sorted, nil == empty, zero uuid == ""), for comparison and hashing.
package canon

import (
	"crypto/sha256"
	"encoding/hex"
	"fmt"
	"reflect"
	"sort"
	"strconv"
	"strings"

	"github.com/ovn-org/libovsdb/model"
)

const ZeroUUID = "00000000-0000-0000-0000-000000000000"

// Atom renders an atomic native value.
func Atom(v reflect.Value) string {
	switch v.Kind() {
	case reflect.Int, reflect.Int64:
		return "i" + strconv.FormatInt(v.Int(), 10)
	case reflect.Float64:
		f := v.Float()
		if f == 0 {
			f = 0 // -0 == 0
		}
		return "r" + strconv.FormatFloat(f, 'g', -1, 64)
	case reflect.Bool:
		return "b" + strconv.FormatBool(v.Bool())
	case reflect.String:
		return strconv.Quote(v.String())
	}
	return fmt.Sprintf("?%v", v.Interface())
}

// Native renders any native column value.
func Native(x interface{}) string {
	v := reflect.ValueOf(x)
	if !v.IsValid() {
		return "nil"
	}
	switch v.Kind() {
	case reflect.Ptr:
		if v.IsNil() {
			return "[]"
		}
		return "[" + Atom(v.Elem()) + "]"
	case reflect.Slice:
		el := make([]string, v.Len())
		for i := range el {
			el[i] = Atom(v.Index(i))
		}
		sort.Strings(el)
		return "[" + strings.Join(el, ",") + "]"
	case reflect.Map:
		el := make([]string, 0, v.Len())
		for it := v.MapRange(); it.Next(); {
			el = append(el, Atom(it.Key())+":"+Atom(it.Value()))
		}
		sort.Strings(el)
		return "{" + strings.Join(el, ",") + "}"
	}
	return Atom(v)
}

// Model renders the tagged fields of a model, sorted by column. uuidCols lists
// columns whose string atoms are UUIDs (""==zero uuid); may be nil.
func Model(m model.Model) string {
	if m == nil || (reflect.ValueOf(m).Kind() == reflect.Ptr && reflect.ValueOf(m).IsNil()) {
		return "<nil>"
	}
	v := reflect.ValueOf(m).Elem()
	t := v.Type()
	parts := make([]string, 0, t.NumField())
	for i := 0; i < t.NumField(); i++ {
		col := t.Field(i).Tag.Get("ovsdb")
		if col == "" {
			continue
		}
		parts = append(parts, col+"="+Native(v.Field(i).Interface()))
	}
	sort.Strings(parts)
	return strings.Join(parts, " ")
}

// ModelCols renders only the given columns (plus _uuid).
func ModelCols(m model.Model, cols map[string]bool) string {
	v := reflect.ValueOf(m).Elem()
	t := v.Type()
	parts := make([]string, 0, t.NumField())
	for i := 0; i < t.NumField(); i++ {
		col := t.Field(i).Tag.Get("ovsdb")
		if col == "" || (col != "_uuid" && cols != nil && !cols[col]) {
			continue
		}
		parts = append(parts, col+"="+Native(v.Field(i).Interface()))
	}
	sort.Strings(parts)
	return strings.Join(parts, " ")
}

// Rows renders a table (uuid -> model) sorted by uuid.
func Rows(rows map[string]model.Model) string {
	keys := make([]string, 0, len(rows))
	for k := range rows {
		keys = append(keys, k)
	}
	sort.Strings(keys)
	var b strings.Builder
	for _, k := range keys {
		b.WriteString(k)
		b.WriteString(": ")
		b.WriteString(Model(rows[k]))
		b.WriteString("\n")
	}
	return b.String()
}

// Hash is a short hash of s.
func Hash(s string) string {
	h := sha256.Sum256([]byte(s))
	return hex.EncodeToString(h[:12])
}
