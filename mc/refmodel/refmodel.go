// Package refmodel is a deliberately dull executable reference of RFC 7047
// §5.1-5.2 (operations), §3.2 (isRoot, refType, indexes) and the monitor view.
// It shares no code with libovsdb's transaction engine.
package refmodel

import (
	"fmt"
	"sort"
	"strconv"
	"strings"

	"github.com/ovn-org/libovsdb/ovsdb"
)

const ZeroUUID = "00000000-0000-0000-0000-000000000000"

// Atom is an atomic value. K: i integer, r real, b boolean, s string, u uuid.
type Atom struct {
	K byte
	I int64
	R float64
	B bool
	S string
}

func I(i int64) Atom   { return Atom{K: 'i', I: i} }
func R(r float64) Atom { return Atom{K: 'r', R: r + 0} }
func B(b bool) Atom    { return Atom{K: 'b', B: b} }
func S(s string) Atom  { return Atom{K: 's', S: s} }
func U(s string) Atom {
	if s == "" {
		s = ZeroUUID
	}
	return Atom{K: 'u', S: s}
}

func (a Atom) String() string {
	switch a.K {
	case 'i':
		return "i" + strconv.FormatInt(a.I, 10)
	case 'r':
		if a.R == 0 {
			return "r0" // -0 == 0
		}
		return "r" + strconv.FormatFloat(a.R, 'g', -1, 64)
	case 'b':
		return "b" + strconv.FormatBool(a.B)
	case 's':
		return strconv.Quote(a.S)
	case 'u':
		return "<" + a.S + ">"
	}
	return "?"
}

func less(a, b Atom) bool {
	if a.K != b.K {
		return a.K < b.K
	}
	switch a.K {
	case 'i':
		return a.I < b.I
	case 'r':
		return a.R < b.R
	case 'b':
		return !a.B && b.B
	}
	return a.S < b.S
}

// Value is a set of atoms or a map from atoms to atoms. A 1..1 column is a set of size 1.
type Value struct {
	IsMap bool
	Set   []Atom // sorted, unique
	Map   map[Atom]Atom
}

func SetOf(atoms ...Atom) Value {
	m := map[Atom]bool{}
	var out []Atom
	for _, a := range atoms {
		if !m[a] {
			m[a] = true
			out = append(out, a)
		}
	}
	sort.Slice(out, func(i, j int) bool { return less(out[i], out[j]) })
	return Value{Set: out}
}

func MapOf(pairs ...Atom) Value {
	m := map[Atom]Atom{}
	for i := 0; i+1 < len(pairs); i += 2 {
		m[pairs[i]] = pairs[i+1]
	}
	return Value{IsMap: true, Map: m}
}

func (v Value) Len() int {
	if v.IsMap {
		return len(v.Map)
	}
	return len(v.Set)
}

func (v Value) Has(a Atom) bool {
	for _, x := range v.Set {
		if x == a {
			return true
		}
	}
	return false
}

func (v Value) Keys() []Atom {
	ks := make([]Atom, 0, len(v.Map))
	for k := range v.Map {
		ks = append(ks, k)
	}
	sort.Slice(ks, func(i, j int) bool { return less(ks[i], ks[j]) })
	return ks
}

func (v Value) Clone() Value {
	if v.IsMap {
		m := make(map[Atom]Atom, len(v.Map))
		for k, x := range v.Map {
			m[k] = x
		}
		return Value{IsMap: true, Map: m}
	}
	return Value{Set: append([]Atom(nil), v.Set...)}
}

func (v Value) String() string {
	var p []string
	if v.IsMap {
		for _, k := range v.Keys() {
			p = append(p, k.String()+":"+v.Map[k].String())
		}
		return "{" + strings.Join(p, ",") + "}"
	}
	for _, a := range v.Set {
		p = append(p, a.String())
	}
	return "[" + strings.Join(p, ",") + "]"
}

func (v Value) Equal(o Value) bool { return v.String() == o.String() }

// ---- schema ----

type Col struct {
	Name             string
	KeyT, ValT       string
	Min, Max         int // Max -1 unlimited
	KeyRef, ValRef   string
	KeyWeak, ValWeak bool
	Mutable          bool
	IsMap            bool
	Enum             []Atom
}

// Scalar: exactly one element.
func (c *Col) Scalar() bool { return !c.IsMap && c.Min == 1 && c.Max == 1 }

func defAtom(t string) Atom {
	switch t {
	case "integer":
		return I(0)
	case "real":
		return R(0)
	case "boolean":
		return B(false)
	case "uuid":
		return U("")
	}
	return S("")
}

func (c *Col) Default() Value {
	if c.IsMap {
		return MapOf()
	}
	if c.Scalar() {
		return SetOf(defAtom(c.KeyT))
	}
	return SetOf()
}

type Table struct {
	Name    string
	Cols    map[string]*Col
	IsRoot  bool
	Indexes [][]string
}

func (t *Table) ColNames() []string {
	var n []string
	for c := range t.Cols {
		n = append(n, c)
	}
	sort.Strings(n)
	return n
}

type Schema struct {
	Name   string
	Tables map[string]*Table
}

func (s *Schema) TableNames() []string {
	var n []string
	for t := range s.Tables {
		n = append(n, t)
	}
	sort.Strings(n)
	return n
}

// FromOvsdb derives the reference schema from a parsed schema (public accessors only).
func FromOvsdb(s ovsdb.DatabaseSchema) *Schema {
	out := &Schema{Name: s.Name, Tables: map[string]*Table{}}
	anyRoot := false
	for _, t := range s.Tables {
		if t.IsRoot {
			anyRoot = true
		}
	}
	for tn, t := range s.Tables {
		rt := &Table{Name: tn, Cols: map[string]*Col{}, IsRoot: t.IsRoot || !anyRoot, Indexes: t.Indexes}
		for cn, c := range t.Columns {
			col := &Col{Name: cn, Mutable: c.Mutable(), Min: c.TypeObj.Min(), Max: c.TypeObj.Max(), KeyT: c.TypeObj.Key.Type}
			if rtb, _ := c.TypeObj.Key.RefTable(); rtb != "" {
				col.KeyRef = rtb
				ty, _ := c.TypeObj.Key.RefType()
				col.KeyWeak = ty == ovsdb.Weak
			}
			for _, e := range c.TypeObj.Key.Enum {
				switch x := e.(type) {
				case string:
					col.Enum = append(col.Enum, S(x))
				case float64:
					if col.KeyT == "integer" {
						col.Enum = append(col.Enum, I(int64(x)))
					} else {
						col.Enum = append(col.Enum, R(x))
					}
				case int:
					col.Enum = append(col.Enum, I(int64(x)))
				case bool:
					col.Enum = append(col.Enum, B(x))
				}
			}
			if c.TypeObj.Value != nil {
				col.IsMap = true
				col.ValT = c.TypeObj.Value.Type
				if rtb, _ := c.TypeObj.Value.RefTable(); rtb != "" {
					col.ValRef = rtb
					ty, _ := c.TypeObj.Value.RefType()
					col.ValWeak = ty == ovsdb.Weak
				}
			}
			rt.Cols[cn] = col
		}
		out.Tables[tn] = rt
	}
	return out
}

// ---- database ----

type Row map[string]Value

func (r Row) Clone() Row {
	o := make(Row, len(r))
	for k, v := range r {
		o[k] = v.Clone()
	}
	return o
}

func (r Row) String() string {
	var ks []string
	for k := range r {
		ks = append(ks, k)
	}
	sort.Strings(ks)
	var p []string
	for _, k := range ks {
		p = append(p, k+"="+r[k].String())
	}
	return strings.Join(p, " ")
}

type DB struct {
	S *Schema
	T map[string]map[string]Row
}

func NewDB(s *Schema) *DB {
	d := &DB{S: s, T: map[string]map[string]Row{}}
	for t := range s.Tables {
		d.T[t] = map[string]Row{}
	}
	return d
}

func (d *DB) Clone() *DB {
	o := &DB{S: d.S, T: map[string]map[string]Row{}}
	for t, rows := range d.T {
		o.T[t] = make(map[string]Row, len(rows))
		for u, r := range rows {
			o.T[t][u] = r.Clone()
		}
	}
	return o
}

// Dump renders the whole database canonically.
func (d *DB) Dump() string {
	var b strings.Builder
	for _, t := range d.S.TableNames() {
		var us []string
		for u := range d.T[t] {
			us = append(us, u)
		}
		sort.Strings(us)
		for _, u := range us {
			fmt.Fprintf(&b, "%s/%s: %s\n", t, u, d.T[t][u])
		}
	}
	return b.String()
}

// ---- operations ----

type Cond struct {
	Col string
	Fn  string
	Val Value
}

type Mut struct {
	Col     string
	Mutator string
	Val     Value
}

type Op struct {
	Op       string
	Table    string
	Row      Row
	Where    []Cond
	Muts     []Mut
	Columns  []string
	Until    string
	Rows     []Row
	UUID     string
	UUIDName string
}

type Result struct {
	Err   string // "", "constraint violation", "referential integrity violation", "timed out", "error"
	UUID  string
	Count int
	Rows  []Row // select: full rows incl. _uuid (projection is applied by the caller)
	Kind  string
}

// EvalCond evaluates one condition on a column value (RFC 7047 §5.1).
func EvalCond(c *Col, v Value, fn string, arg Value) (bool, error) {
	scalarNum := c != nil && c.Scalar() && (c.KeyT == "integer" || c.KeyT == "real")
	switch fn {
	case "<", "<=", ">", ">=":
		if !scalarNum || len(v.Set) != 1 || len(arg.Set) != 1 {
			return false, fmt.Errorf("relational operator on non-numeric scalar")
		}
		a, b := v.Set[0], arg.Set[0]
		var lt, eq bool
		if a.K == 'i' {
			lt, eq = a.I < b.I, a.I == b.I
		} else {
			lt, eq = a.R < b.R, a.R == b.R
		}
		switch fn {
		case "<":
			return lt, nil
		case "<=":
			return lt || eq, nil
		case ">":
			return !lt && !eq, nil
		default:
			return !lt, nil
		}
	case "==":
		return v.Equal(arg), nil
	case "!=":
		return !v.Equal(arg), nil
	case "includes":
		if v.IsMap {
			for k, x := range arg.Map {
				if y, ok := v.Map[k]; !ok || y != x {
					return false, nil
				}
			}
			return true, nil
		}
		for _, a := range arg.Set {
			if !v.Has(a) {
				return false, nil
			}
		}
		return true, nil
	case "excludes":
		if v.IsMap {
			for k, x := range arg.Map {
				if y, ok := v.Map[k]; ok && y == x {
					return false, nil
				}
			}
			return true, nil
		}
		for _, a := range arg.Set {
			if v.Has(a) {
				return false, nil
			}
		}
		return true, nil
	}
	return false, fmt.Errorf("unknown function %s", fn)
}

func (d *DB) match(t *Table, uuid string, row Row, where []Cond) (bool, error) {
	for _, c := range where {
		var v Value
		var col *Col
		if c.Col == "_uuid" {
			v = SetOf(U(uuid))
			col = &Col{Name: "_uuid", KeyT: "uuid", Min: 1, Max: 1}
		} else {
			col = t.Cols[c.Col]
			if col == nil {
				return false, fmt.Errorf("unknown column %s", c.Col)
			}
			v = row[c.Col]
		}
		ok, err := EvalCond(col, v, c.Fn, c.Val)
		if err != nil || !ok {
			return false, err
		}
	}
	return true, nil
}

func (d *DB) selectRows(t *Table, where []Cond) ([]string, error) {
	var us []string
	for u, r := range d.T[t.Name] {
		ok, err := d.match(t, u, r, where)
		if err != nil {
			return nil, err
		}
		if ok {
			us = append(us, u)
		}
	}
	sort.Strings(us)
	return us, nil
}

// ApplyMutation applies one mutation to a value.
func ApplyMutation(c *Col, v Value, mutator string, arg Value) (Value, error) {
	switch mutator {
	case "+=", "-=", "*=", "/=", "%=":
		if c.IsMap || (c.KeyT != "integer" && c.KeyT != "real") || len(arg.Set) != 1 {
			return v, fmt.Errorf("arithmetic mutator on non-numeric column")
		}
		b := arg.Set[0]
		var out []Atom
		for _, a := range v.Set {
			if a.K == 'i' {
				switch mutator {
				case "+=":
					a.I += b.I
				case "-=":
					a.I -= b.I
				case "*=":
					a.I *= b.I
				case "/=":
					if b.I == 0 {
						return v, fmt.Errorf("domain error")
					}
					a.I /= b.I
				case "%=":
					if b.I == 0 {
						return v, fmt.Errorf("domain error")
					}
					a.I %= b.I
				}
			} else {
				switch mutator {
				case "+=":
					a.R += b.R
				case "-=":
					a.R -= b.R
				case "*=":
					a.R *= b.R
				case "/=":
					if b.R == 0 {
						return v, fmt.Errorf("domain error")
					}
					a.R /= b.R
				case "%=":
					return v, fmt.Errorf("modulo on real")
				}
			}
			out = append(out, a)
		}
		return SetOf(out...), nil
	case "insert":
		if c.IsMap {
			n := v.Clone()
			for k, x := range arg.Map {
				if _, ok := n.Map[k]; !ok {
					n.Map[k] = x
				}
			}
			return n, nil
		}
		return SetOf(append(append([]Atom{}, v.Set...), arg.Set...)...), nil
	case "delete":
		if c.IsMap {
			n := v.Clone()
			if arg.IsMap {
				for k, x := range arg.Map {
					if y, ok := n.Map[k]; ok && y == x {
						delete(n.Map, k)
					}
				}
			} else {
				for _, k := range arg.Set {
					delete(n.Map, k)
				}
			}
			return n, nil
		}
		var out []Atom
		for _, a := range v.Set {
			if !arg.Has(a) {
				out = append(out, a)
			}
		}
		return SetOf(out...), nil
	}
	return v, fmt.Errorf("unknown mutator")
}

func substAtom(a Atom, names map[string]string) Atom {
	if a.K == 'u' {
		if r, ok := names[a.S]; ok {
			a.S = r
		}
	}
	return a
}

func substValue(v Value, names map[string]string) Value {
	if v.IsMap {
		m := map[Atom]Atom{}
		for k, x := range v.Map {
			m[substAtom(k, names)] = substAtom(x, names)
		}
		return Value{IsMap: true, Map: m}
	}
	out := make([]Atom, len(v.Set))
	for i, a := range v.Set {
		out[i] = substAtom(a, names)
	}
	return SetOf(out...)
}

func substRow(r Row, names map[string]string) Row {
	if r == nil {
		return nil
	}
	o := Row{}
	for k, v := range r {
		o[k] = substValue(v, names)
	}
	return o
}

// ResolveNames substitutes named UUIDs (uuid atoms equal to a uuid-name of an insert) in every operation.
func ResolveNames(ops []Op) ([]Op, error) {
	names := map[string]string{}
	for _, op := range ops {
		if op.Op == "insert" && op.UUIDName != "" {
			if prev, ok := names[op.UUIDName]; ok && prev != op.UUID {
				return nil, fmt.Errorf("duplicate uuid-name")
			}
			names[op.UUIDName] = op.UUID
		}
	}
	out := make([]Op, len(ops))
	for i, op := range ops {
		n := op
		n.Row = substRow(op.Row, names)
		n.Where = nil
		for _, c := range op.Where {
			n.Where = append(n.Where, Cond{c.Col, c.Fn, substValue(c.Val, names)})
		}
		n.Muts = nil
		for _, m := range op.Muts {
			n.Muts = append(n.Muts, Mut{m.Col, m.Mutator, substValue(m.Val, names)})
		}
		n.Rows = nil
		for _, r := range op.Rows {
			n.Rows = append(n.Rows, substRow(r, names))
		}
		out[i] = n
	}
	return out, nil
}

// Outcome of a transaction in the reference model.
type Outcome struct {
	Results   []Result
	FailedOp  int    // index of failing operation or -1
	CommitErr string // "" or error category of the commit-time rejection
	Note      string
	New       *DB // resulting database (== old one when rejected)
}

func (o *Outcome) Accepted() bool { return o.FailedOp < 0 && o.CommitErr == "" }

// Transact executes the operations (UUIDs of inserts must be given) and the commit rules.
func (d *DB) Transact(in []Op) *Outcome {
	out := &Outcome{FailedOp: -1, New: d}
	ops, err := ResolveNames(in)
	if err != nil {
		out.FailedOp = 0
		out.Results = []Result{{Err: "error"}}
		out.Note = err.Error()
		return out
	}
	w := d.Clone()
	fail := func(i int, kind, note string) *Outcome {
		out.Results = append(out.Results, Result{Err: kind})
		out.FailedOp = i
		out.Note = note
		return out
	}
	for i, op := range ops {
		t := w.S.Tables[op.Table]
		if t == nil {
			return fail(i, "error", "unknown table")
		}
		switch op.Op {
		case "insert":
			if _, exists := w.T[t.Name][op.UUID]; exists {
				return fail(i, "error", "duplicate uuid")
			}
			row := Row{}
			for cn, c := range t.Cols {
				row[cn] = c.Default()
			}
			for cn, v := range op.Row {
				if t.Cols[cn] == nil {
					return fail(i, "error", "unknown column")
				}
				row[cn] = v.Clone()
			}
			w.T[t.Name][op.UUID] = row
			out.Results = append(out.Results, Result{UUID: op.UUID, Kind: "insert"})
		case "select":
			us, err := w.selectRows(t, op.Where)
			if err != nil {
				return fail(i, "error", err.Error())
			}
			res := Result{Kind: "select"}
			for _, u := range us {
				r := w.T[t.Name][u].Clone()
				r["_uuid"] = SetOf(U(u))
				res.Rows = append(res.Rows, r)
			}
			out.Results = append(out.Results, res)
		case "update":
			us, err := w.selectRows(t, op.Where)
			if err != nil {
				return fail(i, "error", err.Error())
			}
			for _, u := range us {
				for cn, v := range op.Row {
					c := t.Cols[cn]
					if c == nil {
						return fail(i, "error", "unknown column")
					}
					if !c.Mutable && !w.T[t.Name][u][cn].Equal(v) {
						return fail(i, "constraint violation", "immutable column")
					}
					w.T[t.Name][u][cn] = v.Clone()
				}
			}
			out.Results = append(out.Results, Result{Count: len(us), Kind: "count"})
		case "mutate":
			us, err := w.selectRows(t, op.Where)
			if err != nil {
				return fail(i, "error", err.Error())
			}
			for _, u := range us {
				for _, m := range op.Muts {
					c := t.Cols[m.Col]
					if c == nil {
						return fail(i, "error", "unknown column")
					}
					nv, err := ApplyMutation(c, w.T[t.Name][u][m.Col], m.Mutator, m.Val)
					if err != nil {
						return fail(i, "error", err.Error())
					}
					if !c.Mutable && !nv.Equal(w.T[t.Name][u][m.Col]) {
						return fail(i, "constraint violation", "immutable column")
					}
					w.T[t.Name][u][m.Col] = nv
				}
			}
			out.Results = append(out.Results, Result{Count: len(us), Kind: "count"})
		case "delete":
			us, err := w.selectRows(t, op.Where)
			if err != nil {
				return fail(i, "error", err.Error())
			}
			for _, u := range us {
				delete(w.T[t.Name], u)
			}
			out.Results = append(out.Results, Result{Count: len(us), Kind: "count"})
		case "wait":
			us, err := w.selectRows(t, op.Where)
			if err != nil {
				return fail(i, "error", err.Error())
			}
			proj := func(r Row) string {
				var p []string
				cols := op.Columns
				if len(cols) == 0 {
					cols = t.ColNames()
				}
				for _, c := range cols {
					p = append(p, c+"="+r[c].String())
				}
				return strings.Join(p, " ")
			}
			have := map[string]bool{}
			for _, u := range us {
				have[proj(w.T[t.Name][u])] = true
			}
			want := map[string]bool{}
			for _, r := range op.Rows {
				full := Row{}
				for cn, c := range t.Cols {
					full[cn] = c.Default()
				}
				for cn, v := range r {
					full[cn] = v
				}
				want[proj(full)] = true
			}
			eq := len(have) == len(want)
			for k := range have {
				if !want[k] {
					eq = false
				}
			}
			if (op.Until == "==") != eq {
				return fail(i, "timed out", "wait")
			}
			out.Results = append(out.Results, Result{Kind: "wait"})
		default:
			return fail(i, "error", "unsupported op")
		}
	}
	// commit
	if kind, note := w.commit(); kind != "" {
		out.CommitErr = kind
		out.Note = note
		return out
	}
	out.New = w
	return out
}

// refsTo reports whether any stored row strongly references uuid of table tn.
func (d *DB) stronglyReferenced(tn, uuid string) bool {
	for ftn, ft := range d.S.Tables {
		for _, c := range ft.Cols {
			kr := c.KeyRef == tn && !c.KeyWeak
			vr := c.ValRef == tn && !c.ValWeak
			if !kr && !vr {
				continue
			}
			for _, r := range d.T[ftn] {
				v := r[c.Name]
				if c.IsMap {
					for k, x := range v.Map {
						if (kr && k.S == uuid) || (vr && x.S == uuid) {
							return true
						}
					}
				} else if kr && v.Has(U(uuid)) {
					return true
				}
			}
		}
	}
	return false
}

// commit applies garbage collection and weak pruning to fixpoint, then checks constraints.
func (d *DB) commit() (string, string) {
	pruned := map[string]bool{} // table/uuid/col of weak columns we pruned
	for changed := true; changed; {
		changed = false
		for tn, t := range d.S.Tables {
			if t.IsRoot {
				continue
			}
			for u := range d.T[tn] {
				if !d.stronglyReferenced(tn, u) {
					delete(d.T[tn], u)
					changed = true
				}
			}
		}
		for tn, t := range d.S.Tables {
			for _, c := range t.Cols {
				for u, r := range d.T[tn] {
					v := r[c.Name]
					if c.IsMap {
						for k, x := range v.Map {
							if (c.KeyRef != "" && c.KeyWeak && d.T[c.KeyRef][k.S] == nil) ||
								(c.ValRef != "" && c.ValWeak && d.T[c.ValRef][x.S] == nil) {
								delete(v.Map, k)
								changed = true
								pruned[tn+"/"+u+"/"+c.Name] = true
							}
						}
					} else if c.KeyRef != "" && c.KeyWeak {
						var keep []Atom
						for _, a := range v.Set {
							if d.T[c.KeyRef][a.S] != nil {
								keep = append(keep, a)
							}
						}
						if len(keep) != len(v.Set) {
							r[c.Name] = SetOf(keep...)
							changed = true
							pruned[tn+"/"+u+"/"+c.Name] = true
						}
					}
				}
			}
		}
	}
	// weak columns below their minimum
	for key := range pruned {
		p := strings.SplitN(key, "/", 3)
		r := d.T[p[0]][p[1]]
		if r == nil {
			continue
		}
		c := d.S.Tables[p[0]].Cols[p[2]]
		if r[c.Name].Len() < c.Min {
			return "constraint violation", "weak reference column below minimum: " + key
		}
	}
	// dangling strong references
	for tn, t := range d.S.Tables {
		for _, c := range t.Cols {
			for u, r := range d.T[tn] {
				v := r[c.Name]
				if c.IsMap {
					for k, x := range v.Map {
						if c.KeyRef != "" && !c.KeyWeak && d.T[c.KeyRef][k.S] == nil {
							return "referential integrity violation", fmt.Sprintf("%s/%s.%s key -> %s", tn, u, c.Name, k.S)
						}
						if c.ValRef != "" && !c.ValWeak && d.T[c.ValRef][x.S] == nil {
							return "referential integrity violation", fmt.Sprintf("%s/%s.%s value -> %s", tn, u, c.Name, x.S)
						}
					}
				} else if c.KeyRef != "" && !c.KeyWeak {
					for _, a := range v.Set {
						if d.T[c.KeyRef][a.S] == nil {
							return "referential integrity violation", fmt.Sprintf("%s/%s.%s -> %s", tn, u, c.Name, a.S)
						}
					}
				}
			}
		}
	}
	// unique indexes
	for tn, t := range d.S.Tables {
		for _, ix := range t.Indexes {
			seen := map[string]string{}
			for u, r := range d.T[tn] {
				var p []string
				for _, c := range ix {
					p = append(p, r[c].String())
				}
				k := strings.Join(p, "|")
				if o, ok := seen[k]; ok {
					return "constraint violation", fmt.Sprintf("index %v of %s: rows %s and %s", ix, tn, o, u)
				}
				seen[k] = u
			}
		}
	}
	return "", ""
}

// Invariants checks C04 (a)-(c) on a database content; returns "" or a description.
func (d *DB) Invariants() string {
	for tn, t := range d.S.Tables {
		for _, c := range t.Cols {
			for u, r := range d.T[tn] {
				v := r[c.Name]
				check := func(ref string, weak bool, a Atom) string {
					if ref == "" || d.T[ref][a.S] != nil {
						return ""
					}
					if weak {
						return fmt.Sprintf("dangling weak reference %s/%s.%s -> %s", tn, u, c.Name, a.S)
					}
					return fmt.Sprintf("dangling strong reference %s/%s.%s -> %s", tn, u, c.Name, a.S)
				}
				if c.IsMap {
					for k, x := range v.Map {
						if m := check(c.KeyRef, c.KeyWeak, k); m != "" {
							return m
						}
						if m := check(c.ValRef, c.ValWeak, x); m != "" {
							return m
						}
					}
				} else {
					for _, a := range v.Set {
						if m := check(c.KeyRef, c.KeyWeak, a); m != "" {
							return m
						}
					}
				}
			}
		}
		if !t.IsRoot {
			for u := range d.T[tn] {
				if !d.stronglyReferenced(tn, u) {
					return fmt.Sprintf("unreferenced non-root row %s/%s", tn, u)
				}
			}
		}
	}
	return ""
}
