// Package e2e: a real client attached to the real in-process server over a unix
// socket, optionally through a message-level proxy that can cut the connection
// at a chosen message boundary; plus a controller for the client's pause points.
package e2e

import (
	"context"
	"encoding/json"
	"fmt"
	"io"
	"net"
	"os"
	"path/filepath"
	"sync"
	"sync/atomic"
	"time"

	"github.com/go-logr/logr"
	"github.com/ovn-org/libovsdb/client"
	"github.com/ovn-org/libovsdb/model"

	"verif/mc/refmodel"
	"verif/mc/schemas"
	"verif/mc/sys"
)

var (
	sockDir  string
	sockOnce sync.Once
	sockSeq  int64
)

func newSock() string {
	sockOnce.Do(func() {
		d, err := os.MkdirTemp("", "vc")
		if err != nil {
			panic(err)
		}
		sockDir = d
	})
	return filepath.Join(sockDir, fmt.Sprintf("s%d", atomic.AddInt64(&sockSeq, 1)))
}

// Cleanup removes the socket directory.
func Cleanup() {
	if sockDir != "" {
		os.RemoveAll(sockDir)
	}
}

// Env is one real server listening on a unix socket.
type Env struct {
	Sys   *sys.Sys
	Sock  string
	Proxy *Proxy
	done  chan struct{}
}

// Start creates the server and serves it.
func Start(dbs *schemas.DB) *Env {
	e := &Env{Sys: sys.New(dbs), Sock: newSock(), done: make(chan struct{})}
	go func() {
		defer close(e.done)
		_ = e.Sys.Srv.Serve("unix", e.Sock)
	}()
	for i := 0; !e.Sys.Srv.Ready(); i++ {
		if i > 20000 {
			panic("server did not become ready")
		}
		time.Sleep(50 * time.Microsecond)
	}
	return e
}

// StartWithServerDB is Start with a server that also serves the _Server database.
func StartWithServerDB(dbs *schemas.DB) *Env {
	e := &Env{Sys: sys.NewWithServerDB(dbs), Sock: newSock(), done: make(chan struct{})}
	go func() {
		defer close(e.done)
		_ = e.Sys.Srv.Serve("unix", e.Sock)
	}()
	for i := 0; !e.Sys.Srv.Ready(); i++ {
		if i > 20000 {
			panic("server did not become ready")
		}
		time.Sleep(50 * time.Microsecond)
	}
	return e
}

// WithProxy puts a proxy in front of the server; clients should dial e.Proxy.Sock.
func (e *Env) WithProxy() *Proxy {
	e.Proxy = NewProxy(e.Sock)
	return e.Proxy
}

func (e *Env) Close() {
	if e.Proxy != nil {
		e.Proxy.Close()
	}
	e.Sys.Srv.Close()
	<-e.done
	os.Remove(e.Sock)
}

// NewClient creates (not connects) a client for the schema against sock.
func NewClient(dbs *schemas.DB, sock string, opts ...client.Option) client.Client {
	l := logr.Discard()
	all := append([]client.Option{client.WithEndpoint("unix:" + sock), client.WithLogger(&l)}, opts...)
	c, err := client.NewOVSDBClient(dbs.ClientDBModel(), all...)
	if err != nil {
		panic(err)
	}
	return c
}

// CacheState reads the client's cache as reference rows.
func CacheState(ref *refmodel.Schema, c client.Client) map[string]map[string]refmodel.Row {
	out := map[string]map[string]refmodel.Row{}
	tc := c.Cache()
	if tc == nil {
		return out
	}
	for tn, t := range ref.Tables {
		out[tn] = map[string]refmodel.Row{}
		rc := tc.Table(tn)
		if rc == nil {
			continue
		}
		for u, m := range rc.Rows() {
			out[tn][u] = sys.FromModel(t, m)
		}
	}
	return out
}

// ---- pause points ----

// Pauser parks goroutines of one client at named points.
type Pauser struct {
	mu      sync.Mutex
	hold    map[string]bool          // points at which to park
	parked  map[string]chan struct{} // point -> release channel of the goroutine parked there
	arrived map[string]chan struct{} // closed when a goroutine parks at the point
}

var pausers sync.Map // client.Client -> *Pauser
var pauseInstalled sync.Once

// NewPauser attaches a pauser to client c.
func NewPauser(c client.Client) *Pauser {
	pauseInstalled.Do(func() {
		client.VerifSetPause(func(cl client.Client, point string) {
			if p, ok := pausers.Load(cl); ok {
				p.(*Pauser).at(point)
			}
		})
	})
	p := &Pauser{hold: map[string]bool{}, parked: map[string]chan struct{}{}, arrived: map[string]chan struct{}{}}
	pausers.Store(c, p)
	return p
}

func (p *Pauser) Detach(c client.Client) { p.ReleaseAll(); pausers.Delete(c) }

func (p *Pauser) at(point string) {
	p.mu.Lock()
	if !p.hold[point] {
		p.mu.Unlock()
		return
	}
	rel := make(chan struct{})
	p.parked[point] = rel
	if a := p.arrived[point]; a != nil {
		close(a)
		delete(p.arrived, point)
	}
	p.hold[point] = false // one-shot
	p.mu.Unlock()
	<-rel
}

// Hold makes the next goroutine reaching point park there; returns a channel closed when it has.
func (p *Pauser) Hold(point string) <-chan struct{} {
	p.mu.Lock()
	defer p.mu.Unlock()
	p.hold[point] = true
	a := make(chan struct{})
	p.arrived[point] = a
	return a
}

// Release lets the goroutine parked at point continue.
func (p *Pauser) Release(point string) {
	p.mu.Lock()
	defer p.mu.Unlock()
	p.hold[point] = false
	if r := p.parked[point]; r != nil {
		close(r)
		delete(p.parked, point)
	}
}

func (p *Pauser) ReleaseAll() {
	p.mu.Lock()
	defer p.mu.Unlock()
	for k := range p.hold {
		p.hold[k] = false
	}
	for k, r := range p.parked {
		close(r)
		delete(p.parked, k)
	}
}

// ---- message-level proxy ----

// Msg describes one JSON-RPC message seen by the proxy.
type Msg struct {
	Conn   int    // connection number (0 = first)
	Dir    string // "c2s" or "s2c"
	Index  int    // message number on this connection (both directions, in forwarding order)
	Method string // for requests / notifications
	ID     string // raw id
	IsResp bool
	Raw    json.RawMessage
}

// Decision of the controller for a message.
type Decision int

const (
	Forward   Decision = iota
	CutBefore          // close both sides instead of forwarding this message
	CutAfter           // forward it, then close both sides
	Swallow            // do not forward, keep the connection
)

type Proxy struct {
	cond        *sync.Cond
	Sock        string
	upstream    string
	ln          net.Listener
	mu          sync.Mutex
	conns       int
	Log         []Msg
	Forwarded   []Msg // messages actually written to the other side
	Decide      func(m Msg) Decision
	Rewrite     func(m Msg) json.RawMessage // non-nil result replaces the forwarded bytes
	closedConns map[int]bool
	accept      bool
	closed      bool
	live        []net.Conn
	wg          sync.WaitGroup
}

func NewProxy(upstream string) *Proxy {
	p := &Proxy{Sock: newSock(), upstream: upstream, accept: true}
	p.cond = sync.NewCond(&p.mu)
	ln, err := net.Listen("unix", p.Sock)
	if err != nil {
		panic(err)
	}
	p.ln = ln
	go p.serve()
	return p
}

func (p *Proxy) serve() {
	for {
		c, err := p.ln.Accept()
		if err != nil {
			return
		}
		p.mu.Lock()
		ok := p.accept && !p.closed
		n := p.conns
		if ok {
			p.conns++
		}
		p.mu.Unlock()
		if !ok {
			c.Close()
			continue
		}
		s, err := net.Dial("unix", p.upstream)
		if err != nil {
			c.Close()
			continue
		}
		p.mu.Lock()
		p.live = append(p.live, c, s)
		p.mu.Unlock()
		var idx int64 = -1
		var once sync.Once
		cut := func() {
			once.Do(func() {
				c.Close()
				s.Close()
				p.mu.Lock()
				if p.closedConns == nil {
					p.closedConns = map[int]bool{}
				}
				p.closedConns[n] = true
				p.cond.Broadcast()
				p.mu.Unlock()
			})
		}
		pump := func(dir string, from, to net.Conn) {
			defer p.wg.Done()
			defer cut()
			dec := json.NewDecoder(from)
			for {
				var raw json.RawMessage
				if err := dec.Decode(&raw); err != nil {
					return
				}
				var hdr struct {
					Method string          `json:"method"`
					ID     json.RawMessage `json:"id"`
					Result json.RawMessage `json:"result"`
					Error  json.RawMessage `json:"error"`
				}
				_ = json.Unmarshal(raw, &hdr)
				m := Msg{Conn: n, Dir: dir, Index: int(atomic.AddInt64(&idx, 1)), Method: hdr.Method, ID: string(hdr.ID), IsResp: hdr.Method == "", Raw: raw}
				p.mu.Lock()
				p.Log = append(p.Log, m)
				decide := p.Decide
				p.mu.Unlock()
				d := Forward
				if decide != nil {
					d = decide(m)
				}
				switch d {
				case CutBefore:
					return
				case Swallow:
					continue
				}
				p.mu.Lock()
				rw := p.Rewrite
				p.mu.Unlock()
				if rw != nil {
					if nr := rw(m); nr != nil {
						raw = nr
					}
				}
				if _, err := to.Write(append(raw, '\n')); err != nil {
					return
				}
				p.mu.Lock()
				p.Forwarded = append(p.Forwarded, m)
				p.cond.Broadcast()
				p.mu.Unlock()
				if d == CutAfter {
					return
				}
			}
		}
		p.wg.Add(2)
		go pump("c2s", c, s)
		go pump("s2c", s, c)
	}
}

// WaitFor blocks until pred (evaluated with the proxy locked, on the forwarded messages) holds or the timeout expires.
func (p *Proxy) WaitFor(pred func(fwd []Msg) bool, timeout time.Duration) bool {
	deadline := time.Now().Add(timeout)
	done := make(chan struct{})
	defer close(done)
	go func() {
		// wake the waiter up at the deadline
		select {
		case <-time.After(timeout):
			p.mu.Lock()
			p.cond.Broadcast()
			p.mu.Unlock()
		case <-done:
		}
	}()
	p.mu.Lock()
	defer p.mu.Unlock()
	for !pred(p.Forwarded) {
		if time.Now().After(deadline) {
			return false
		}
		p.cond.Wait()
	}
	return true
}

// WaitClosed waits until connection n has been closed (by either peer or by a cut).
func (p *Proxy) WaitClosed(n int, timeout time.Duration) bool {
	deadline := time.Now().Add(timeout)
	for {
		p.mu.Lock()
		ok := p.closedConns[n]
		p.mu.Unlock()
		if ok {
			return true
		}
		if time.Now().After(deadline) {
			return false
		}
		time.Sleep(2 * time.Millisecond)
	}
}

// Quiesce waits until the proxy has seen no new message for the given window (at most max): whatever a peer wrote before
// the call has then, in all likelihood, been handled. Only used to order harness steps, never as an oracle.
func (p *Proxy) Quiesce(window, max time.Duration) {
	deadline := time.Now().Add(max)
	last, since := -1, time.Now()
	for time.Now().Before(deadline) {
		p.mu.Lock()
		n := len(p.Log)
		p.mu.Unlock()
		if n != last {
			last, since = n, time.Now()
		} else if time.Since(since) >= window {
			return
		}
		time.Sleep(window / 8)
	}
}

// SetAccept makes the proxy accept (or refuse) new connections.
func (p *Proxy) SetAccept(ok bool) { p.mu.Lock(); p.accept = ok; p.mu.Unlock() }

// CutAll closes every live connection.
func (p *Proxy) CutAll() {
	p.mu.Lock()
	live := p.live
	p.live = nil
	p.mu.Unlock()
	for _, c := range live {
		c.Close()
	}
}

func (p *Proxy) Messages() []Msg {
	p.mu.Lock()
	defer p.mu.Unlock()
	return append([]Msg{}, p.Log...)
}

func (p *Proxy) ForwardedMsgs() []Msg {
	p.mu.Lock()
	defer p.mu.Unlock()
	return append([]Msg{}, p.Forwarded...)
}

func (p *Proxy) Conns() int { p.mu.Lock(); defer p.mu.Unlock(); return p.conns }

func (p *Proxy) Close() {
	p.mu.Lock()
	p.closed = true
	p.mu.Unlock()
	p.ln.Close()
	p.CutAll()
	os.Remove(p.Sock)
}

// Ctx returns a context with a generous watchdog timeout.
func Ctx() (context.Context, context.CancelFunc) {
	return context.WithTimeout(context.Background(), 30*time.Second)
}

var _ = io.EOF
var _ model.Model
