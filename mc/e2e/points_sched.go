//go:build vsched

package e2e

// Scheduling points announced by the client (injected by the overlay before every blocking lock acquisition,
// error-channel send and wait-group wait of client.go): record them, or park the goroutine that reaches the
// n-th occurrence of one of them.

import (
	"runtime"
	"strings"
	"sync"

	"github.com/ovn-org/libovsdb/client"
)

type Points struct {
	mu        sync.Mutex
	recording bool
	seq       []string
	hold      string
	nth       int
	count     int
	arrived   chan struct{}
	release   chan struct{}
	inFunc    []string // HoldNextIn: park the first goroutine announcing any point with one of these in its stack
}

var points = &Points{}
var pointsOnce sync.Once

// ThePoints returns the process-wide controller (one client per session process).
func ThePoints() *Points {
	pointsOnce.Do(func() { client.VerifSetPointHook(points.at) })
	return points
}

func PointsAvailable() bool { return true }

func (p *Points) at(pt string) {
	p.mu.Lock()
	if p.recording {
		p.seq = append(p.seq, pt)
	}
	if len(p.inFunc) > 0 {
		buf := make([]byte, 8192)
		st := string(buf[:runtime.Stack(buf, false)])
		for _, f := range p.inFunc {
			if strings.Contains(st, f) {
				p.inFunc = nil
				p.hold, p.nth, p.count = pt, 1, 0
				break
			}
		}
	}
	if p.hold != pt {
		p.mu.Unlock()
		return
	}
	p.count++
	if p.count != p.nth {
		p.mu.Unlock()
		return
	}
	p.hold = ""
	rel := make(chan struct{})
	p.release = rel
	close(p.arrived)
	p.mu.Unlock()
	<-rel
}

// Record starts recording; the returned function stops it and returns the points reached, in order.
func (p *Points) Record() func() []string {
	p.mu.Lock()
	p.recording, p.seq = true, nil
	p.mu.Unlock()
	return func() []string {
		p.mu.Lock()
		defer p.mu.Unlock()
		p.recording = false
		return append([]string{}, p.seq...)
	}
}

// Hold parks the goroutine reaching the nth (1-based) occurrence of point from now on.
func (p *Points) Hold(point string, nth int) <-chan struct{} {
	p.mu.Lock()
	defer p.mu.Unlock()
	p.hold, p.nth, p.count = point, nth, 0
	p.arrived = make(chan struct{})
	return p.arrived
}

// HoldNextIn parks the first goroutine that announces a point while one of the given function names is on its stack.
func (p *Points) HoldNextIn(funcs ...string) <-chan struct{} {
	p.mu.Lock()
	defer p.mu.Unlock()
	p.hold, p.inFunc = "", funcs
	p.arrived = make(chan struct{})
	return p.arrived
}

// Release lets the parked goroutine continue and disarms the hold.
func (p *Points) Release() {
	p.mu.Lock()
	defer p.mu.Unlock()
	p.hold, p.inFunc = "", nil
	if p.release != nil {
		close(p.release)
		p.release = nil
	}
}
