//go:build !vsched

package e2e

// Without the overlay build the client announces no points.
type Points struct{}

func ThePoints() *Points                                     { return &Points{} }
func PointsAvailable() bool                                  { return false }
func (p *Points) Record() func() []string                    { return func() []string { return nil } }
func (p *Points) Hold(point string, nth int) <-chan struct{} { return make(chan struct{}) }
func (p *Points) HoldNextIn(funcs ...string) <-chan struct{} { return make(chan struct{}) }
func (p *Points) Release()                                   {}
