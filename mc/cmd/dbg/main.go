package main

// dbg: replay a history of S-ref alphabet transaction names and print states (debug aid).
import (
	"fmt"
	"os"

	"verif/mc/checks"
)

func main() { checks.DebugReplay(os.Args[1:]); fmt.Println() }
