package main

import (
	"fmt"
	"io"
	"log"
	"os"
	"runtime/debug"

	"github.com/go-logr/stdr"
	"verif/mc/checks"
	"verif/mc/ev"
)

func main() {
	if len(os.Args) < 3 {
		fmt.Fprintln(os.Stderr, "usage: vcheck <Cxx> <quick|thorough>")
		os.Exit(2)
	}
	id, tier := os.Args[1], os.Args[2]
	e, ok := checks.Registry[id]
	if !ok {
		fmt.Fprintf(os.Stderr, "unknown check %s\n", id)
		os.Exit(2)
	}
	// libovsdb logs through loggers bound to os.Stderr at construction time: silence them.
	if os.Getenv("VERIF_LOG") == "" {
		if dn, err := os.OpenFile(os.DevNull, os.O_WRONLY, 0); err == nil {
			os.Stderr = dn
		}
	}
	log.SetOutput(io.Discard)
	stdr.SetVerbosity(0)
	debug.SetGCPercent(400)
	r := ev.New(id, tier, e.Level)
	func() {
		defer func() {
			if p := recover(); p != nil {
				fmt.Fprintf(ev.Err, "check %s panicked: %v\n%s\n", id, p, debug.Stack())
				os.Exit(3)
			}
		}()
		e.Run(r)
	}()
	os.Exit(r.Finish())
}
