// Package par: simple work sharding over goroutines.
package par

import (
	"runtime"
	"sync"
	"sync/atomic"
)

// For runs f(i) for i in [0,n) on all cores; stop() is polled between items.
func For(n int, stop func() bool, f func(i int)) {
	w := runtime.GOMAXPROCS(0)
	if w > n {
		w = n
	}
	if w < 1 {
		w = 1
	}
	var next int64 = -1
	var wg sync.WaitGroup
	for k := 0; k < w; k++ {
		wg.Add(1)
		go func() {
			defer wg.Done()
			for {
				i := int(atomic.AddInt64(&next, 1))
				if i >= n || (stop != nil && stop()) {
					return
				}
				f(i)
			}
		}()
	}
	wg.Wait()
}

// Perms calls f with every permutation of 0..n-1 (f must not retain the slice).
func Perms(n int, f func(p []int) bool) {
	p := make([]int, n)
	for i := range p {
		p[i] = i
	}
	var rec func(k int) bool
	rec = func(k int) bool {
		if k == n {
			return f(p)
		}
		for i := k; i < n; i++ {
			p[k], p[i] = p[i], p[k]
			if !rec(k + 1) {
				return false
			}
			p[k], p[i] = p[i], p[k]
		}
		return true
	}
	rec(0)
}
