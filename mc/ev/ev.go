// Package ev: evidence files, violation reporting, known findings.
package ev

import (
	"bufio"
	"encoding/json"
	"fmt"
	"hash/fnv"
	"os"
	"path/filepath"
	"regexp"
	"runtime"
	"runtime/debug"
	"runtime/pprof"
	"sort"
	"strconv"
	"strings"
	"sync"
	"sync/atomic"
	"time"
)

const Root = "/verif"

// Out is the real stdout (checks print through it); Err the real stderr.
var (
	Out = os.Stdout
	Err = os.Stderr
)

type violation struct {
	Sig    string      `json:"sig"`
	What   string      `json:"what"`
	Case   interface{} `json:"case"`
	Count  int         `json:"count"`
	Replay string      `json:"replay,omitempty"`
}

// Run collects what one check execution covered.
type Run struct {
	Prop, Tier, Level string
	Seed              int
	start             time.Time
	mu                sync.Mutex
	cov               map[string]interface{}
	counters          map[string]int64
	samples           []interface{}
	sampleCap         int
	distinct          map[string]map[string]struct{}
	distinctH         map[string]map[uint64]struct{}
	viol              map[string]*violation
	known             map[string]string // sig -> text
	knownHit          map[string]*violation
	assumptions       []string
	notes             []string
	Exhaustive        bool
	deadline          time.Time
	// OnViolation, when set (worker processes), is called for every recorded violation.
	OnViolation func(sig, what string, c interface{})
}

func envInt(k string, d int) int {
	if v, err := strconv.Atoi(os.Getenv(k)); err == nil {
		return v
	}
	return d
}

// New starts a run for property prop at level.
func New(prop, tier, level string) *Run {
	r := &Run{Prop: prop, Tier: tier, Level: level, Seed: envInt("VERIF_SEED", 0), start: time.Now(),
		cov: map[string]interface{}{}, counters: map[string]int64{}, sampleCap: 6,
		distinct: map[string]map[string]struct{}{}, distinctH: map[string]map[uint64]struct{}{}, viol: map[string]*violation{},
		known: map[string]string{}, knownHit: map[string]*violation{}, Exhaustive: true}
	r.loadKnown()
	if os.Getenv("VERIF_WORKER") == "" {
		// replays of earlier runs of this property are stale
		if old, err := filepath.Glob(filepath.Join(Root, "replays", prop+"-*.json")); err == nil {
			for _, f := range old {
				os.Remove(f)
			}
		}
	}
	return r
}

var knownRe = regexp.MustCompile(`^known:\s+property=(\S+)\s+sig=(\S+)\s*(.*)$`)

func (r *Run) loadKnown() {
	f, err := os.Open(filepath.Join(Root, "KNOWN_FINDINGS.txt"))
	if err != nil {
		return
	}
	defer f.Close()
	sc := bufio.NewScanner(f)
	sc.Buffer(make([]byte, 1<<20), 1<<20)
	for sc.Scan() {
		m := knownRe.FindStringSubmatch(strings.TrimSpace(sc.Text()))
		if m != nil && m[1] == r.Prop {
			r.known[m[2]] = m[3]
		}
	}
}

// SetDeadline sets an internal time budget; Expired() tells loops to stop (run is then not exhaustive).
func (r *Run) SetDeadline(d time.Duration) { r.deadline = r.start.Add(d) }

// memory guard: the sandbox has no memory limit and an out-of-memory kill would take the whole check (and its evidence) with
// it; an exploration that outgrows the budget stops expanding, like one that outruns its deadline, and reports exhaustive=false
var memOnce sync.Once
var memExceeded int32

func memWatch() {
	limit := int64(envInt("VERIF_MEM_LIMIT_MB", 20000)) << 20
	if os.Getenv("VERIF_WORKER") != "" {
		limit = int64(envInt("VERIF_WORKER_MEM_LIMIT_MB", 2500)) << 20
	}
	go func() {
		var ms runtime.MemStats
		for {
			runtime.ReadMemStats(&ms)
			if int64(ms.HeapInuse) > limit {
				if pf := os.Getenv("VERIF_HEAPPROF"); pf != "" && atomic.LoadInt32(&memExceeded) == 0 {
					if f, err := os.Create(pf); err == nil {
						_ = pprof.WriteHeapProfile(f)
						f.Close()
					}
					fmt.Fprintf(os.Stderr, "memory budget exceeded: heap in use %d MB, goroutines %d\n", ms.HeapInuse>>20, runtime.NumGoroutine())
				}
				atomic.StoreInt32(&memExceeded, 1)
				debug.FreeOSMemory()
			}
			time.Sleep(2 * time.Second)
		}
	}()
}

func (r *Run) Expired() bool {
	memOnce.Do(memWatch)
	if atomic.LoadInt32(&memExceeded) != 0 {
		r.mu.Lock()
		r.Exhaustive = false
		if r.cov["stopped_by_memory_budget"] == nil {
			r.cov["stopped_by_memory_budget"] = true
		}
		r.mu.Unlock()
		return true
	}
	if r.deadline.IsZero() {
		return false
	}
	if time.Now().After(r.deadline) {
		r.mu.Lock()
		r.Exhaustive = false
		r.mu.Unlock()
		return true
	}
	return false
}

func (r *Run) Add(counter string, n int64) {
	r.mu.Lock()
	r.counters[counter] += n
	r.mu.Unlock()
}

func (r *Run) Get(counter string) int64 {
	r.mu.Lock()
	defer r.mu.Unlock()
	return r.counters[counter]
}

func (r *Run) Set(key string, v interface{}) {
	r.mu.Lock()
	r.cov[key] = v
	r.mu.Unlock()
}

// Distinct records key in the named distinct-set; the set size is reported.
func (r *Run) Distinct(set, key string) {
	if set == "nontrivial" || set == "states" {
		// these grow to tens of millions of members in the thorough tiers and are only ever counted: keep a 64-bit hash
		h := fnv.New64a()
		h.Write([]byte(key))
		v := h.Sum64()
		r.mu.Lock()
		m := r.distinctH[set]
		if m == nil {
			m = map[uint64]struct{}{}
			r.distinctH[set] = m
		}
		m[v] = struct{}{}
		r.mu.Unlock()
		return
	}
	r.mu.Lock()
	m := r.distinct[set]
	if m == nil {
		m = map[string]struct{}{}
		r.distinct[set] = m
	}
	m[key] = struct{}{}
	r.mu.Unlock()
}

func (r *Run) DistinctCount(set string) int {
	r.mu.Lock()
	defer r.mu.Unlock()
	return len(r.distinct[set]) + len(r.distinctH[set])
}

func (r *Run) Sample(s interface{}) {
	r.mu.Lock()
	if len(r.samples) < r.sampleCap {
		r.samples = append(r.samples, s)
	}
	r.mu.Unlock()
}

func (r *Run) Assume(s string) { r.mu.Lock(); r.assumptions = append(r.assumptions, s); r.mu.Unlock() }
func (r *Run) Note(s string)   { r.mu.Lock(); r.notes = append(r.notes, s); r.mu.Unlock() }

// Violation records a counterexample under a signature. The first (shortest, since
// alphabets are ordered simplest-first) case per signature is kept.
func (r *Run) Violation(sig, what string, c interface{}) {
	sig = sanitize(sig)
	if r.OnViolation != nil {
		r.mu.Lock()
		_, seen := r.viol[sig]
		if !seen {
			r.viol[sig] = &violation{Sig: sig, What: what, Case: c, Count: 1}
		}
		r.mu.Unlock()
		if !seen {
			r.OnViolation(sig, what, c)
		}
		return
	}
	r.mu.Lock()
	defer r.mu.Unlock()
	if _, ok := r.known[sig]; ok {
		if v := r.knownHit[sig]; v != nil {
			v.Count++
		} else {
			r.knownHit[sig] = &violation{Sig: sig, What: what, Case: c, Count: 1}
		}
		return
	}
	if v := r.viol[sig]; v != nil {
		v.Count++
		return
	}
	r.viol[sig] = &violation{Sig: sig, What: what, Case: c, Count: 1}
}

func (r *Run) Violations() int { r.mu.Lock(); defer r.mu.Unlock(); return len(r.viol) }

// HasSig reports whether a violation (known or not) with this signature was recorded.
func (r *Run) HasSig(sig string) bool {
	sig = sanitize(sig)
	r.mu.Lock()
	defer r.mu.Unlock()
	return r.viol[sig] != nil || r.knownHit[sig] != nil
}

func sanitize(s string) string {
	var b strings.Builder
	for _, c := range s {
		switch {
		case c >= 'a' && c <= 'z', c >= 'A' && c <= 'Z', c >= '0' && c <= '9', c == '.', c == '-', c == '_', c == '+':
			b.WriteRune(c)
		default:
			b.WriteByte('_')
		}
	}
	return b.String()
}

// Finish writes the evidence file, replay files, prints result lines and returns the exit code.
func (r *Run) Finish() int {
	r.mu.Lock()
	defer r.mu.Unlock()
	wall := time.Since(r.start).Seconds()
	cov := map[string]interface{}{}
	for k, v := range r.counters {
		cov[k] = v
	}
	for k, v := range r.distinct {
		cov["distinct_"+k] = len(v)
	}
	for k, v := range r.distinctH {
		cov["distinct_"+k] = len(v)
	}
	for k, v := range r.cov {
		cov[k] = v
	}
	cov["exhaustive"] = r.Exhaustive
	if len(r.samples) == 0 {
		r.samples = append(r.samples, "no case was explored")
	}
	cov["samples"] = r.samples
	if len(r.notes) > 0 {
		cov["notes"] = r.notes
	}
	var sigs []string
	for s := range r.viol {
		sigs = append(sigs, s)
	}
	sort.Strings(sigs)
	var ksigs []string
	for s := range r.knownHit {
		ksigs = append(ksigs, s)
	}
	sort.Strings(ksigs)
	cov["known_findings_hit"] = ksigs
	os.MkdirAll(filepath.Join(Root, "replays"), 0o755)
	var vlist []interface{}
	for _, s := range sigs {
		v := r.viol[s]
		p := filepath.Join(Root, "replays", fmt.Sprintf("%s-%s.json", r.Prop, s))
		b, _ := json.MarshalIndent(map[string]interface{}{"property": r.Prop, "sig": v.Sig, "what": v.What, "case": v.Case, "tier": r.Tier}, "", " ")
		os.WriteFile(p, b, 0o644)
		v.Replay = p
		vlist = append(vlist, map[string]interface{}{"sig": v.Sig, "what": v.What, "count": v.Count, "replay": p})
	}
	if len(vlist) > 0 {
		cov["violation_list"] = vlist
	}
	evd := map[string]interface{}{
		"property_id": r.Prop, "tier": r.Tier, "seed": r.Seed, "level": r.Level,
		"coverage": cov, "assumptions": r.assumptions, "wall_s": wall, "violations": len(sigs),
	}
	if r.assumptions == nil {
		evd["assumptions"] = []string{}
	}
	b, err := json.MarshalIndent(evd, "", " ")
	if err != nil {
		fmt.Fprintf(Err, "evidence marshal: %v\n", err)
		return 2
	}
	os.MkdirAll(filepath.Join(Root, "evidence"), 0o755)
	if err := os.WriteFile(filepath.Join(Root, "evidence", r.Prop+".json"), b, 0o644); err != nil {
		fmt.Fprintf(Err, "evidence write: %v\n", err)
		return 2
	}
	// the same file kept per tier, so that a later quick run does not erase what the last thorough run covered
	os.MkdirAll(filepath.Join(Root, "evidence", "by-tier"), 0o755)
	_ = os.WriteFile(filepath.Join(Root, "evidence", "by-tier", r.Prop+"."+r.Tier+".json"), b, 0o644)
	for _, s := range ksigs {
		v := r.knownHit[s]
		fmt.Fprintf(Out, "KNOWN-FINDING: property=%s sig=%s %s (hit %d times)\n", r.Prop, s, r.known[s], v.Count)
	}
	for _, s := range sigs {
		v := r.viol[s]
		fmt.Fprintf(Out, "VIOLATION property=%s replay=%s sig=%s what=%s\n", r.Prop, v.Replay, s, oneLine(v.What))
	}
	fmt.Fprintf(Out, "%s %s: wall=%.1fs exhaustive=%v violations=%d known=%d", r.Prop, r.Tier, wall, r.Exhaustive, len(sigs), len(ksigs))
	var keys []string
	for k := range cov {
		switch cov[k].(type) {
		case int, int64:
			keys = append(keys, k)
		}
	}
	sort.Strings(keys)
	for _, k := range keys {
		fmt.Fprintf(Out, " %s=%v", k, cov[k])
	}
	fmt.Fprintln(Out)
	if len(sigs) > 0 {
		return 1
	}
	return 0
}

func oneLine(s string) string {
	s = strings.ReplaceAll(s, "\n", " | ")
	if len(s) > 400 {
		s = s[:400] + "..."
	}
	return s
}

// J renders v as compact JSON (for messages and samples).
func J(v interface{}) string {
	b, err := json.Marshal(v)
	if err != nil {
		return fmt.Sprintf("%+v", v)
	}
	return string(b)
}

// DistinctKeys returns the sorted members of a distinct-set.
func (r *Run) DistinctKeys(set string) []string {
	r.mu.Lock()
	defer r.mu.Unlock()
	var k []string
	for x := range r.distinct[set] {
		k = append(k, x)
	}
	sort.Strings(k)
	return k
}

// Yield lets other goroutines run briefly (used only to wait for an asynchronous dispatcher to drain).
func Yield() { time.Sleep(200 * time.Microsecond) }

// Snapshot is the mergeable part of a run (counters, distinct sets, samples, notes).
type Snapshot struct {
	Counters   map[string]int64    `json:"c"`
	Distinct   map[string][]string `json:"d"`
	DistinctH  map[string][]uint64 `json:"h"`
	Samples    []interface{}       `json:"s"`
	Notes      []string            `json:"n"`
	Exhaustive bool                `json:"e"`
}

func (r *Run) Snapshot() Snapshot {
	r.mu.Lock()
	defer r.mu.Unlock()
	s := Snapshot{Counters: map[string]int64{}, Distinct: map[string][]string{}, Samples: r.samples, Notes: r.notes, Exhaustive: r.Exhaustive}
	for k, v := range r.counters {
		s.Counters[k] = v
	}
	for k, m := range r.distinct {
		for x := range m {
			s.Distinct[k] = append(s.Distinct[k], x)
		}
	}
	s.DistinctH = map[string][]uint64{}
	for k, m := range r.distinctH {
		l := make([]uint64, 0, len(m))
		for x := range m {
			l = append(l, x)
		}
		s.DistinctH[k] = l
	}
	return s
}

func (r *Run) Merge(s Snapshot) {
	r.mu.Lock()
	defer r.mu.Unlock()
	for k, v := range s.Counters {
		r.counters[k] += v
	}
	for k, l := range s.Distinct {
		m := r.distinct[k]
		if m == nil {
			m = map[string]struct{}{}
			r.distinct[k] = m
		}
		for _, x := range l {
			m[x] = struct{}{}
		}
	}
	for k, l := range s.DistinctH {
		m := r.distinctH[k]
		if m == nil {
			m = map[uint64]struct{}{}
			r.distinctH[k] = m
		}
		for _, x := range l {
			m[x] = struct{}{}
		}
	}
	for _, x := range s.Samples {
		if len(r.samples) < r.sampleCap {
			r.samples = append(r.samples, x)
		}
	}
	for _, x := range s.Notes {
		if len(r.notes) < 20 {
			r.notes = append(r.notes, x)
		}
	}
	if !s.Exhaustive {
		r.Exhaustive = false
	}
}
