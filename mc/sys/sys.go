// Package sys wraps the real in-memory database + OvsdbServer (no network) and
// converts between the reference model's values and libovsdb's.
package sys

import (
	"encoding/json"
	"fmt"
	"io"
	"reflect"
	"runtime"
	"runtime/debug"
	"sort"
	"strings"
	"sync"
	"time"

	"github.com/cenkalti/rpc2"
	"github.com/ovn-org/libovsdb/database"
	"github.com/ovn-org/libovsdb/database/inmemory"
	"github.com/ovn-org/libovsdb/model"
	"github.com/ovn-org/libovsdb/ovsdb"
	"github.com/ovn-org/libovsdb/ovsdb/serverdb"
	"github.com/ovn-org/libovsdb/server"

	"verif/mc/refmodel"
	"verif/mc/schemas"
)

type Sys struct {
	client *rpc2.Client // connection in whose name transactions are issued (nil: none)
	DBS    *schemas.DB
	Ref    *refmodel.Schema
	DBM    model.DatabaseModel
	DB     database.Database
	Srv    *server.OvsdbServer
	Name   string
}

func New(dbs *schemas.DB) *Sys {
	s := &Sys{DBS: dbs, Ref: refmodel.FromOvsdb(dbs.Schema), DBM: dbs.DBModel(), Name: dbs.Name}
	s.DB = inmemory.NewDatabase(map[string]model.ClientDBModel{dbs.Name: dbs.ClientDBModel()})
	srv, err := server.NewOvsdbServer(s.DB, s.DBM)
	if err != nil {
		panic(err)
	}
	s.Srv = srv
	return s
}

// NewWithServerDB is New plus the _Server database (leader-only clients read and monitor its Database table).
func NewWithServerDB(dbs *schemas.DB) *Sys {
	s := &Sys{DBS: dbs, Ref: refmodel.FromOvsdb(dbs.Schema), DBM: dbs.DBModel(), Name: dbs.Name}
	sdbm, err := serverdb.FullDatabaseModel()
	if err != nil {
		panic(err)
	}
	s.DB = inmemory.NewDatabase(map[string]model.ClientDBModel{dbs.Name: dbs.ClientDBModel(), "_Server": sdbm})
	servMod, errs := model.NewDatabaseModel(serverdb.Schema(), sdbm)
	if len(errs) > 0 {
		panic(fmt.Sprint(errs))
	}
	srv, err := server.NewOvsdbServer(s.DB, s.DBM, servMod)
	if err != nil {
		panic(err)
	}
	s.Srv = srv
	return s
}

const leaderRowUUID = "5e5e5e5e-0000-0000-0000-000000000001"

// SetLeader writes the row of the _Server.Database table that describes this server's copy of the database:
// clustered, with server id sid, leader or not.
func (s *Sys) SetLeader(sid string, leader bool) {
	db, _ := json.Marshal("_Server")
	sel, _ := json.Marshal(ovsdb.Operation{Op: "select", Table: "Database", Where: []ovsdb.Condition{{Column: "_uuid", Function: ovsdb.ConditionEqual, Value: ovsdb.UUID{GoUUID: leaderRowUUID}}}})
	res, err := s.TransactRaw([]json.RawMessage{db, sel})
	if err != nil {
		panic(err)
	}
	var op ovsdb.Operation
	if len(res) == 1 && len(res[0].Rows) == 1 {
		op = ovsdb.Operation{Op: "update", Table: "Database", Where: []ovsdb.Condition{{Column: "_uuid", Function: ovsdb.ConditionEqual, Value: ovsdb.UUID{GoUUID: leaderRowUUID}}}, Row: ovsdb.Row{"leader": leader}}
	} else {
		u := leaderRowUUID
		op = ovsdb.Operation{Op: "insert", Table: "Database", UUID: u, Row: ovsdb.Row{"name": s.Name, "connected": true, "leader": leader, "model": "clustered",
			"sid": ovsdb.OvsSet{GoSet: []interface{}{ovsdb.UUID{GoUUID: sid}}}}}
	}
	b, _ := json.Marshal(op)
	res, err = s.TransactRaw([]json.RawMessage{db, b})
	if err != nil || len(res) == 0 || res[0].Error != "" {
		panic(fmt.Sprint("SetLeader: ", res, err))
	}
}

// ---- value conversion ----

func atomToOvs(a refmodel.Atom) interface{} {
	switch a.K {
	case 'i':
		return int(a.I)
	case 'r':
		return a.R
	case 'b':
		return a.B
	case 'u':
		return ovsdb.UUID{GoUUID: a.S}
	}
	return a.S
}

// ToOvs renders a reference value in OVSDB notation for column c (c==nil: _uuid).
func ToOvs(c *refmodel.Col, v refmodel.Value) interface{} {
	if v.IsMap {
		m := map[interface{}]interface{}{}
		for k, x := range v.Map {
			m[atomToOvs(k)] = atomToOvs(x)
		}
		return ovsdb.OvsMap{GoMap: m}
	}
	if (c == nil || c.Scalar()) && len(v.Set) == 1 {
		return atomToOvs(v.Set[0])
	}
	s := make([]interface{}, 0, len(v.Set))
	for _, a := range v.Set {
		s = append(s, atomToOvs(a))
	}
	return ovsdb.OvsSet{GoSet: s}
}

func ToOvsRow(t *refmodel.Table, r refmodel.Row) ovsdb.Row {
	if r == nil {
		return nil
	}
	out := ovsdb.Row{}
	for cn, v := range r {
		out[cn] = ToOvs(t.Cols[cn], v)
	}
	return out
}

// ToOvsOp converts an abstract operation.
func ToOvsOp(s *refmodel.Schema, op refmodel.Op) ovsdb.Operation {
	t := s.Tables[op.Table]
	o := ovsdb.Operation{Op: op.Op, Table: op.Table, UUID: op.UUID, UUIDName: op.UUIDName, Columns: op.Columns, Until: op.Until}
	col := func(n string) *refmodel.Col {
		if t == nil {
			return nil
		}
		return t.Cols[n]
	}
	if op.Row != nil {
		o.Row = ovsdb.Row{}
		for cn, v := range op.Row {
			o.Row[cn] = ToOvs(col(cn), v)
		}
	}
	for _, r := range op.Rows {
		rr := ovsdb.Row{}
		for cn, v := range r {
			rr[cn] = ToOvs(col(cn), v)
		}
		o.Rows = append(o.Rows, rr)
	}
	for _, c := range op.Where {
		o.Where = append(o.Where, ovsdb.NewCondition(c.Col, ovsdb.ConditionFunction(c.Fn), ToOvs(col(c.Col), c.Val)))
	}
	if op.Op != "insert" && op.Op != "select" && o.Where == nil && op.Op != "wait" {
		o.Where = []ovsdb.Condition{}
	}
	for _, m := range op.Muts {
		c := col(m.Col)
		var v interface{}
		if c != nil && !c.IsMap && !c.Scalar() && (m.Mutator == "insert" || m.Mutator == "delete") {
			// a set argument is always written as a set
			s := make([]interface{}, 0, len(m.Val.Set))
			for _, a := range m.Val.Set {
				s = append(s, atomToOvs(a))
			}
			v = ovsdb.OvsSet{GoSet: s}
		} else if c != nil && c.IsMap && !m.Val.IsMap {
			s := make([]interface{}, 0, len(m.Val.Set))
			for _, a := range m.Val.Set {
				s = append(s, atomToOvs(a))
			}
			v = ovsdb.OvsSet{GoSet: s}
		} else if len(m.Val.Set) == 1 && !m.Val.IsMap {
			v = atomToOvs(m.Val.Set[0])
		} else {
			v = ToOvs(c, m.Val)
		}
		o.Mutations = append(o.Mutations, *ovsdb.NewMutation(m.Col, ovsdb.Mutator(m.Mutator), v))
	}
	if op.Op == "wait" {
		zero := 0
		o.Timeout = &zero
	}
	return o
}

func nativeAtom(t string, v reflect.Value) refmodel.Atom {
	switch v.Kind() {
	case reflect.Int, reflect.Int64:
		return refmodel.I(v.Int())
	case reflect.Float64:
		return refmodel.R(v.Float())
	case reflect.Bool:
		return refmodel.B(v.Bool())
	}
	if t == "uuid" {
		return refmodel.U(v.String())
	}
	return refmodel.S(v.String())
}

// FromNative converts a native libovsdb value of column c.
func FromNative(c *refmodel.Col, x interface{}) refmodel.Value {
	v := reflect.ValueOf(x)
	switch v.Kind() {
	case reflect.Ptr:
		if v.IsNil() {
			return refmodel.SetOf()
		}
		return refmodel.SetOf(nativeAtom(c.KeyT, v.Elem()))
	case reflect.Slice:
		var a []refmodel.Atom
		for i := 0; i < v.Len(); i++ {
			a = append(a, nativeAtom(c.KeyT, v.Index(i)))
		}
		return refmodel.SetOf(a...)
	case reflect.Map:
		m := refmodel.MapOf()
		for it := v.MapRange(); it.Next(); {
			m.Map[nativeAtom(c.KeyT, it.Key())] = nativeAtom(c.ValT, it.Value())
		}
		return m
	}
	return refmodel.SetOf(nativeAtom(c.KeyT, v))
}

// FromModel converts a model of table t.
func FromModel(t *refmodel.Table, m model.Model) refmodel.Row {
	r := refmodel.Row{}
	for cn, c := range t.Cols {
		r[cn] = FromNative(c, schemas.Get(m, cn))
	}
	return r
}

func ovsAtom(t string, x interface{}) (refmodel.Atom, error) {
	switch v := x.(type) {
	case float64:
		if t == "integer" {
			return refmodel.I(int64(v)), nil
		}
		return refmodel.R(v), nil
	case int:
		if t == "real" {
			return refmodel.R(float64(v)), nil
		}
		return refmodel.I(int64(v)), nil
	case bool:
		return refmodel.B(v), nil
	case string:
		if t == "uuid" {
			return refmodel.U(v), nil
		}
		return refmodel.S(v), nil
	case ovsdb.UUID:
		return refmodel.U(v.GoUUID), nil
	}
	return refmodel.Atom{}, fmt.Errorf("unexpected atom %T %v", x, x)
}

// FromOvs converts a wire value (after JSON decoding) of column c (nil: _uuid).
func FromOvs(c *refmodel.Col, x interface{}) (refmodel.Value, error) {
	kt, vt := "uuid", ""
	if c != nil {
		kt, vt = c.KeyT, c.ValT
	}
	switch v := x.(type) {
	case ovsdb.OvsSet:
		var a []refmodel.Atom
		for _, e := range v.GoSet {
			at, err := ovsAtom(kt, e)
			if err != nil {
				return refmodel.Value{}, err
			}
			a = append(a, at)
		}
		return refmodel.SetOf(a...), nil
	case ovsdb.OvsMap:
		m := refmodel.MapOf()
		for k, e := range v.GoMap {
			ka, err := ovsAtom(kt, k)
			if err != nil {
				return m, err
			}
			va, err := ovsAtom(vt, e)
			if err != nil {
				return m, err
			}
			m.Map[ka] = va
		}
		return m, nil
	}
	a, err := ovsAtom(kt, x)
	if err != nil {
		return refmodel.Value{}, err
	}
	return refmodel.SetOf(a), nil
}

// FromOvsRow converts a wire row; absent columns are not filled in.
func FromOvsRow(t *refmodel.Table, r ovsdb.Row) (refmodel.Row, error) {
	out := refmodel.Row{}
	for cn, x := range r {
		var c *refmodel.Col
		if cn != "_uuid" {
			c = t.Cols[cn]
			if c == nil {
				return nil, fmt.Errorf("unknown column %s", cn)
			}
		}
		v, err := FromOvs(c, x)
		if err != nil {
			return nil, fmt.Errorf("column %s: %w", cn, err)
		}
		out[cn] = v
	}
	return out, nil
}

// ---- driving the real server ----

// Transact sends operations through OvsdbServer.Transact exactly as they would arrive on the wire.
func (s *Sys) Transact(ops []ovsdb.Operation) (res []ovsdb.OperationResult, rpcErr error) {
	args := make([]json.RawMessage, 0, len(ops)+1)
	b, _ := json.Marshal(s.Name)
	args = append(args, b)
	for _, op := range ops {
		b, err := json.Marshal(op)
		if err != nil {
			return nil, fmt.Errorf("marshal op: %w", err)
		}
		args = append(args, b)
	}
	return s.TransactRaw(args)
}

// ImplFailure is returned when the implementation panicked or did not return.
type ImplFailure struct {
	Panic string // panic value or "hang"
	At    string // innermost libovsdb frame
}

func (f *ImplFailure) Error() string { return "implementation failure: " + f.Panic + " at " + f.At }

// Inline makes TransactRaw run the transaction on the calling goroutine (required under the vsync scheduler).
var Inline bool

// HangTimeout is the watchdog for one transaction (normal latency is < 1 ms).
var HangTimeout = 20 * time.Second

// TransactRaw sends raw JSON params. A panic or a hang of the implementation is
// returned as *ImplFailure (the server is then unusable: it died holding its lock).
func (s *Sys) TransactRaw(args []json.RawMessage) (res []ovsdb.OperationResult, rpcErr error) {
	if Inline {
		// under the controlled scheduler the calling goroutine is the thread: no helper goroutine
		defer func() {
			if p := recover(); p != nil {
				if fmt.Sprintf("%T", p) == "vsync.abortSentinel" {
					panic(p)
				}
				res, rpcErr = nil, &ImplFailure{fmt.Sprint(p), PanicSite(string(debug.Stack()))}
			}
		}()
		return s.transactRaw(args)
	}
	type out struct {
		res []ovsdb.OperationResult
		err error
	}
	ch := make(chan out, 1)
	go func() {
		var o out
		defer func() {
			if p := recover(); p != nil {
				o = out{nil, &ImplFailure{fmt.Sprint(p), PanicSite(string(debug.Stack()))}}
			}
			ch <- o
		}()
		o.res, o.err = s.transactRaw(args)
	}()
	select {
	case o := <-ch:
		return o.res, o.err
	case <-time.After(HangTimeout):
		return nil, &ImplFailure{"transaction did not return within " + HangTimeout.String(), "hang:" + hangSite()}
	}
}

func (s *Sys) transactRaw(args []json.RawMessage) (res []ovsdb.OperationResult, rpcErr error) {
	var reply []*ovsdb.OperationResult
	if err := s.Srv.Transact(s.client, args, &reply); err != nil {
		rpcErr = err
	}
	b, err := json.Marshal(reply)
	if err != nil {
		return nil, fmt.Errorf("marshal reply: %w", err)
	}
	// the wire form: null entries stay null
	var raw []*ovsdb.OperationResult
	if err := json.Unmarshal(b, &raw); err != nil {
		return nil, fmt.Errorf("unmarshal reply: %w", err)
	}
	for _, r := range raw {
		if r == nil {
			res = append(res, ovsdb.OperationResult{Error: "<null>"})
		} else {
			res = append(res, *r)
		}
	}
	return res, rpcErr
}

// TransactRef converts and sends abstract operations.
// As returns a view of the system whose transactions are issued in the name of connection cl (the server keys some of its
// state by connection).
func (s *Sys) As(cl *rpc2.Client) *Sys {
	c := *s
	c.client = cl
	return &c
}

func (s *Sys) TransactRef(ops []refmodel.Op) ([]ovsdb.OperationResult, error) {
	o := make([]ovsdb.Operation, len(ops))
	for i, op := range ops {
		o[i] = ToOvsOp(s.Ref, op)
	}
	return s.Transact(o)
}

// State reads the whole database through Database.List.
func (s *Sys) State() *refmodel.DB {
	d := refmodel.NewDB(s.Ref)
	for tn, t := range s.Ref.Tables {
		rows, err := s.DB.List(s.Name, tn)
		if err != nil {
			panic(err)
		}
		for u, m := range rows {
			d.T[tn][u] = FromModel(t, m)
		}
	}
	return d
}

// Refs renders the reference index of every stored row (as multisets), for C02/C04.
func (s *Sys) Refs(st *refmodel.DB) string {
	var out []string
	for tn, rows := range st.T {
		for u := range rows {
			refs, err := s.DB.GetReferences(s.Name, tn, u)
			if err != nil {
				panic(err)
			}
			for spec, ref := range refs {
				for to, from := range ref {
					f := append([]string(nil), from...)
					sort.Strings(f)
					if len(f) == 0 {
						continue
					}
					out = append(out, fmt.Sprintf("%s.%s(v=%v)->%s/%s from %s", spec.FromTable, spec.FromColumn, spec.FromValue, spec.ToTable, to[len(to)-4:], shortAll(f)))
				}
			}
		}
	}
	sort.Strings(out)
	return strings.Join(out, "\n")
}

func shortAll(f []string) string {
	o := make([]string, len(f))
	for i, x := range f {
		if len(x) > 4 {
			x = x[len(x)-4:]
		}
		o[i] = x
	}
	return strings.Join(o, ",")
}

// ---- recording monitor sink ----

// Note is one notification as it would go on the wire.
type Note struct {
	Method string
	Params json.RawMessage
}

// Recorder is an rpc2 codec that records requests written by the server and acknowledges them.
type Recorder struct {
	mu     sync.Mutex
	Notes  []Note
	resp   chan uint64
	closed chan struct{}
	once   sync.Once
}

func NewRecorder() (*Recorder, *rpc2.Client) {
	r := &Recorder{resp: make(chan uint64, 64), closed: make(chan struct{})}
	c := rpc2.NewClientWithCodec(r)
	go c.Run()
	return r, c
}

func (r *Recorder) ReadHeader(req *rpc2.Request, resp *rpc2.Response) error {
	select {
	case seq := <-r.resp:
		resp.Seq = seq
		return nil
	case <-r.closed:
		return io.EOF
	}
}
func (r *Recorder) ReadRequestBody(interface{}) error  { return nil }
func (r *Recorder) ReadResponseBody(interface{}) error { return nil }
func (r *Recorder) WriteRequest(req *rpc2.Request, args interface{}) error {
	b, err := json.Marshal(args)
	if err != nil {
		return err
	}
	r.mu.Lock()
	r.Notes = append(r.Notes, Note{req.Method, b})
	r.mu.Unlock()
	r.resp <- req.Seq
	return nil
}
func (r *Recorder) WriteResponse(*rpc2.Response, interface{}) error { return nil }
func (r *Recorder) Close() error {
	r.once.Do(func() { close(r.closed) })
	return nil
}

// Take returns and clears the recorded notifications.
func (r *Recorder) Take() []Note {
	r.mu.Lock()
	defer r.mu.Unlock()
	n := r.Notes
	r.Notes = nil
	return n
}

// AddMonitor registers a monitor through the server's exported handler. method is
// monitor | monitor_cond | monitor_cond_since. Returns the recorder and the raw initial reply.
func (s *Sys) AddMonitor(method, id string, req map[string]*ovsdb.MonitorRequest) (*Recorder, *rpc2.Client, json.RawMessage, error) {
	rec, cl := NewRecorder()
	return s.AddMonitorOn(rec, cl, method, id, req)
}

// AddMonitorOn registers one more monitor on a connection that already exists (its recorder then sees the notifications of
// all its monitors; the first parameter of each tells them apart).
func (s *Sys) AddMonitorOn(rec *Recorder, cl *rpc2.Client, method, id string, req map[string]*ovsdb.MonitorRequest) (*Recorder, *rpc2.Client, json.RawMessage, error) {
	dbn, _ := json.Marshal(s.Name)
	idj := json.RawMessage(id) // id is raw JSON (the monitor's json-value)
	rq, err := json.Marshal(req)
	if err != nil {
		return nil, nil, nil, err
	}
	args := []json.RawMessage{dbn, idj, rq}
	var out []byte
	switch method {
	case "monitor":
		var reply ovsdb.TableUpdates
		if err := s.Srv.Monitor(cl, args, &reply); err != nil {
			return nil, nil, nil, err
		}
		out, err = json.Marshal(reply)
	case "monitor_cond":
		var reply ovsdb.TableUpdates2
		if err := s.Srv.MonitorCond(cl, args, &reply); err != nil {
			return nil, nil, nil, err
		}
		out, err = json.Marshal(reply)
	case "monitor_cond_since":
		var reply ovsdb.MonitorCondSinceReply
		args = append(args, json.RawMessage(`"00000000-0000-0000-0000-000000000000"`))
		if err := s.Srv.MonitorCondSince(cl, args, &reply); err != nil {
			return nil, nil, nil, err
		}
		out, err = json.Marshal(reply)
	default:
		return nil, nil, nil, fmt.Errorf("bad method")
	}
	return rec, cl, out, err
}

// CanonResults renders a reply canonically (select rows converted and sorted; error details dropped).
func (s *Sys) CanonResults(tables []string, res []ovsdb.OperationResult) string {
	var out []string
	for i, r := range res {
		switch {
		case r.Error != "":
			out = append(out, "error:"+r.Error)
		case r.Rows != nil:
			var rows []string
			var t *refmodel.Table
			if i < len(tables) {
				t = s.Ref.Tables[tables[i]]
			}
			for _, row := range r.Rows {
				if t == nil {
					rows = append(rows, fmt.Sprint(row))
					continue
				}
				rr, err := FromOvsRow(t, row)
				if err != nil {
					rows = append(rows, "unconvertible:"+err.Error())
					continue
				}
				rows = append(rows, rr.String())
			}
			sort.Strings(rows)
			out = append(out, "rows:"+strings.Join(rows, ";"))
		default:
			out = append(out, fmt.Sprintf("count=%d uuid=%s", r.Count, r.UUID.GoUUID))
		}
	}
	return strings.Join(out, " | ")
}

// OpTables lists the table of each abstract operation.
func OpTables(ops []refmodel.Op) []string {
	t := make([]string, len(ops))
	for i, op := range ops {
		t[i] = op.Table
	}
	return t
}

// PanicSite extracts the first libovsdb frame below the panic from a stack trace.
func PanicSite(stack string) string {
	lines := strings.Split(stack, "\n")
	seenPanic := false
	for _, l := range lines {
		if strings.HasPrefix(l, "panic(") {
			seenPanic = true
			continue
		}
		if seenPanic && strings.HasPrefix(l, "github.com/ovn-org/libovsdb/") {
			f := strings.TrimPrefix(l, "github.com/ovn-org/libovsdb/")
			if i := strings.LastIndex(f, "("); i > 0 {
				f = f[:i]
			}
			return f
		}
	}
	return "unknown"
}

func hangSite() string {
	buf := make([]byte, 1<<20)
	n := runtime.Stack(buf, true)
	for _, g := range strings.Split(string(buf[:n]), "\n\n") {
		if !strings.Contains(g, "server.(*OvsdbServer).Transact") {
			continue
		}
		for _, l := range strings.Split(g, "\n") {
			if strings.HasPrefix(l, "github.com/ovn-org/libovsdb/") {
				f := strings.TrimPrefix(l, "github.com/ovn-org/libovsdb/")
				if i := strings.LastIndex(f, "("); i > 0 {
					f = f[:i]
				}
				return f
			}
		}
	}
	return "unknown"
}
