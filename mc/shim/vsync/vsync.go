// Package vsync is a drop-in replacement for the parts of package sync used by
// libovsdb's cache, server and in-memory database. It is injected with
// `go build -overlay` (the import line of those files is rewritten, nothing
// else). Without an active scheduler every type behaves exactly like its
// sync counterpart. With an active scheduler every blocking operation of a
// controlled goroutine is a scheduling point: exactly one controlled goroutine
// runs at a time and the explorer decides which.
package vsync

import (
	"fmt"
	"os"
	"runtime"
	"runtime/debug"
	"strconv"
	"strings"
	"sync"
	"time"
)

// Re-exports so that rewritten files keep compiling.
type Locker = sync.Locker

// ---------------------------------------------------------------- scheduler

type opKind int

const (
	opStart opKind = iota
	opLock
	opLockAcquire // second step of RWMutex.Lock (after the announcement)
	opRLock
	opWait  // WaitGroup.Wait
	opOnce  // Once.Do
	opYield // hook: enabled when ready() says so
)

type pending struct {
	kind  opKind
	name  string
	mu    *Mutex
	rw    *RWMutex
	wg    *WaitGroup
	once  *Once
	ready func() bool
}

type thread struct {
	parked  bool
	adopted bool
	id      int
	goid    int64
	resume  chan struct{}
	op      pending
	done    bool
	name    string
}

// Point is one scheduling decision of an execution.
type Point struct {
	Enabled   []int
	Chosen    int
	Prev      int  // thread that ran before this point (-1 at start)
	PrevStill bool // the previous thread was still enabled (choosing another one is a preemption)
	Op        string
}

// Result of one execution.
type Result struct {
	Points    []Point
	Choices   []int // index into Enabled at every point
	Deadlock  bool
	Blocked   []string // pending operations at a deadlock
	Hang      bool     // a thread did not come back to the scheduler (stuck outside it)
	Diverged  string   // replay of the prefix met a different enabled set
	ThreadErr []string // panics of harness threads
}

type sched struct {
	mu       sync.Mutex
	threads  []*thread
	byGoid   map[int64]*thread
	cond     *sync.Cond
	abort    chan struct{}
	aborted  bool
	expectSp int // goroutines announced by Spawn that have not registered yet
	names    map[interface{}]string
	nextName map[string]int
}

var (
	activeMu sync.RWMutex
	active   *sched
)

func cur() *sched {
	activeMu.RLock()
	s := active
	activeMu.RUnlock()
	return s
}

func goid() int64 {
	var buf [64]byte
	n := runtime.Stack(buf[:], false)
	// "goroutine 123 ["
	f := strings.Fields(string(buf[:n]))
	if len(f) < 2 {
		return -1
	}
	id, _ := strconv.ParseInt(f[1], 10, 64)
	return id
}

// me returns the controlled thread of the calling goroutine, or nil.
func (s *sched) me() *thread {
	g := goid()
	s.mu.Lock()
	t := s.byGoid[g]
	s.mu.Unlock()
	return t
}

type abortSentinel struct{}

// point parks the calling thread until the scheduler runs it. It reports whether the operation was granted: an adopted
// goroutine is let go without a grant when the execution is aborted while it waits.
func (s *sched) point(t *thread, op pending) bool {
	s.mu.Lock()
	if s.aborted {
		s.mu.Unlock()
		if t.adopted {
			return false
		}
		panic(abortSentinel{})
	}
	t.op = op
	t.parked = true
	s.cond.Broadcast()
	s.mu.Unlock()
	select {
	case <-t.resume:
	case <-s.abort:
		if t.adopted {
			// a goroutine started by the code under test has no wrapper to catch the sentinel: it runs on
			// freely (the harness makes it terminate) while the harness threads unwind
			return false
		}
		panic(abortSentinel{})
	}
	return true
}

// waitUntil waits (scheduler goroutine) until pred holds or the timeout expires. pred runs with s.mu held.
func (s *sched) waitUntil(pred func() bool, timeout time.Duration) bool {
	deadline := time.Now().Add(timeout)
	stop := make(chan struct{})
	defer close(stop)
	go func() {
		select {
		case <-time.After(timeout):
			s.mu.Lock()
			s.cond.Broadcast()
			s.mu.Unlock()
		case <-stop:
		}
	}()
	s.mu.Lock()
	defer s.mu.Unlock()
	for !pred() {
		if time.Now().After(deadline) {
			return false
		}
		s.cond.Wait()
	}
	return true
}

func (s *sched) lockName(kind string, p interface{}) string {
	if n, ok := s.names[p]; ok {
		return n
	}
	s.nextName[kind]++
	n := fmt.Sprintf("%s%d", kind, s.nextName[kind])
	s.names[p] = n
	return n
}

func (s *sched) enabled(t *thread) bool {
	switch t.op.kind {
	case opStart:
		return true
	case opLock:
		if t.op.mu != nil {
			return !t.op.mu.held
		}
		return true // announcing a write lock is always possible
	case opLockAcquire:
		return !t.op.rw.writer && t.op.rw.readers == 0
	case opRLock:
		return !t.op.rw.writer && t.op.rw.announced == 0
	case opWait:
		return t.op.wg.n == 0
	case opOnce:
		return !t.op.once.running
	case opYield:
		return t.op.ready()
	}
	return true
}

// apply performs the model effect of the pending operation of t (called by the scheduler just before resuming t).
func (s *sched) apply(t *thread) {
	switch t.op.kind {
	case opLock:
		if t.op.mu != nil {
			t.op.mu.held = true
			t.op.mu.hist = append(t.op.mu.hist, "lock:"+t.name)
		} else {
			t.op.rw.announced++
		}
	case opLockAcquire:
		t.op.rw.announced--
		t.op.rw.writer = true
	case opRLock:
		t.op.rw.readers++
	case opOnce:
		if !t.op.once.done {
			t.op.once.running = true
		}
	}
}

func (p pending) String() string {
	k := [...]string{"start", "Lock", "Lock(acquire)", "RLock", "Wait", "Once.Do", "yield"}[p.kind]
	return k + " " + p.name
}

// Explore runs one execution: the harness threads are started and scheduled
// following choices (then the default policy: keep running the same thread while
// it is enabled, else the lowest enabled id). maxSteps bounds the execution.
func Explore(threads []func(), choices []int, maxSteps int, watchdog time.Duration) Result {
	s := &sched{byGoid: map[int64]*thread{}, abort: make(chan struct{}), names: map[interface{}]string{}, nextName: map[string]int{}}
	s.cond = sync.NewCond(&s.mu)
	activeMu.Lock()
	if active != nil {
		activeMu.Unlock()
		panic("vsync: an exploration is already running in this process")
	}
	active = s
	activeMu.Unlock()
	var res Result
	var wg sync.WaitGroup
	var errMu sync.Mutex
	started := make(chan struct{})
	for i, f := range threads {
		t := &thread{id: i, resume: make(chan struct{}), name: fmt.Sprintf("T%d", i), parked: true}
		s.threads = append(s.threads, t)
		wg.Add(1)
		go func(t *thread, f func()) {
			defer wg.Done()
			s.mu.Lock()
			t.goid = goid()
			s.byGoid[t.goid] = t
			s.mu.Unlock()
			started <- struct{}{}
			defer func() {
				if p := recover(); p != nil {
					if _, ok := p.(abortSentinel); !ok {
						errMu.Lock()
						res.ThreadErr = append(res.ThreadErr, fmt.Sprintf("%s: panic: %v\n%s", t.name, p, debug.Stack()))
						errMu.Unlock()
					}
				}
				s.mu.Lock()
				t.done = true
				s.cond.Broadcast()
				s.mu.Unlock()
			}()
			select {
			case <-t.resume:
			case <-s.abort:
				panic(abortSentinel{})
			}
			f()
		}(t, f)
	}
	for range threads {
		<-started
	}
	prev := -1
	step := 0
	finish := func() Result {
		s.mu.Lock()
		s.aborted = true
		s.mu.Unlock()
		close(s.abort)
		done := make(chan struct{})
		go func() { wg.Wait(); close(done) }()
		select {
		case <-done:
		case <-time.After(watchdog):
			res.Hang = true
		}
		// goroutines adopted from the code under test must be gone before the next execution starts
		for i := 0; ; i++ {
			s.mu.Lock()
			alive := 0
			for _, t := range s.threads {
				if t.adopted && !t.done {
					alive++
				}
			}
			s.mu.Unlock()
			if alive == 0 {
				break
			}
			if time.Duration(i)*200*time.Microsecond > watchdog {
				res.Hang = true
				res.Blocked = append(res.Blocked, fmt.Sprintf("%d goroutine(s) started by the code under test did not terminate", alive))
				break
			}
			time.Sleep(200 * time.Microsecond)
		}
		activeMu.Lock()
		active = nil
		activeMu.Unlock()
		return res
	}
	for {
		// wait for announced spawns to register (they park at their first point)
		if !s.waitUntil(func() bool { return s.expectSp == 0 }, watchdog) {
			res.Hang = true
			res.Blocked = append(res.Blocked, "an announced goroutine never registered")
			return finish()
		}
		s.mu.Lock()
		var en []int
		allDone := true
		for _, t := range s.threads {
			if t.done {
				continue
			}
			allDone = false
			if s.enabled(t) {
				en = append(en, t.id)
			}
		}
		s.mu.Unlock()
		if allDone {
			return finish()
		}
		if len(en) == 0 {
			// goroutines outside the scheduler (helpers, or goroutines the code under test started without
			// announcing them) may still be about to change the state: give them a moment before calling it a deadlock
			settled := false
			for i := 0; i < 400 && !settled; i++ {
				time.Sleep(500 * time.Microsecond)
				s.mu.Lock()
				for _, t := range s.threads {
					if !t.done && s.enabled(t) {
						settled = true
					}
				}
				s.mu.Unlock()
			}
			if settled {
				continue
			}
			res.Deadlock = true
			s.mu.Lock()
			for _, t := range s.threads {
				if !t.done {
					res.Blocked = append(res.Blocked, t.name+": "+t.op.String())
				}
			}
			s.mu.Unlock()
			return finish()
		}
		// canonical order: the previously running thread first if still enabled, then ascending ids
		prevStill := false
		for i, id := range en {
			if id == prev {
				prevStill = true
				en[0], en[i] = en[i], en[0]
				rest := en[1:]
				for a := 1; a < len(rest); a++ {
					for b := a; b > 0 && rest[b] < rest[b-1]; b-- {
						rest[b], rest[b-1] = rest[b-1], rest[b]
					}
				}
				break
			}
		}
		c := 0
		if step < len(choices) {
			c = choices[step]
			if c >= len(en) {
				res.Diverged = fmt.Sprintf("step %d: choice %d but only %d enabled", step, c, len(en))
				return finish()
			}
		}
		t := s.threads[en[c]]
		s.mu.Lock()
		opName := t.op.String()
		s.apply(t)
		s.mu.Unlock()
		res.Points = append(res.Points, Point{Enabled: append([]int{}, en...), Chosen: t.id, Prev: prev, PrevStill: prevStill, Op: t.name + " " + opName})
		res.Choices = append(res.Choices, c)
		prev = t.id
		step++
		if step > maxSteps {
			res.Hang = true
			return finish()
		}
		s.mu.Lock()
		t.parked = false
		s.mu.Unlock()
		t.resume <- struct{}{}
		// wait until it reaches its next point or finishes
		if !s.waitUntil(func() bool { return t.parked || t.done }, watchdog) {
			res.Hang = true
			res.Blocked = append(res.Blocked, t.name+" did not return to the scheduler after "+opName)
			return finish()
		}
	}
}

// Token identifies a goroutine announced with Spawn.
type Token struct{ s *sched }

// Spawn announces that the calling controlled goroutine is about to start a
// goroutine that will itself use controlled primitives (hook in the code under
// test). The token is handed to the new goroutine, which calls Adopt first.
func Spawn() Token {
	if s := cur(); s != nil {
		if t := s.me(); t != nil {
			s.mu.Lock()
			defer s.mu.Unlock()
			if !s.aborted {
				s.expectSp++
				return Token{s}
			}
		}
	}
	return Token{}
}

// Adopt registers the calling goroutine as a controlled thread of the execution
// that announced it and parks it until it is scheduled.
func Adopt(tok Token) {
	s := tok.s
	if s == nil {
		return
	}
	s.mu.Lock()
	if s.aborted || cur() != s {
		s.expectSp--
		s.mu.Unlock()
		return
	}
	t := &thread{id: len(s.threads), goid: goid(), resume: make(chan struct{}), name: fmt.Sprintf("G%d", len(s.threads)), adopted: true}
	s.threads = append(s.threads, t)
	s.byGoid[t.goid] = t
	s.expectSp--
	s.mu.Unlock()
	s.point(t, pending{kind: opStart, name: "spawned"})
}

// Yield is a hook for waits that are not sync operations (channel receive): the
// calling thread is enabled only when ready() holds.
func Yield(name string, ready func() bool) {
	s := cur()
	if s == nil {
		return
	}
	t := s.me()
	if t == nil {
		return
	}
	s.point(t, pending{kind: opYield, name: name, ready: ready})
}

// ThreadDone must be deferred by adopted goroutines' entry hooks when they exit (hook in the code under test).
func ThreadDone() {
	s := cur()
	if s == nil {
		return
	}
	if t := s.me(); t != nil {
		s.mu.Lock()
		t.done = true
		s.cond.Broadcast()
		s.mu.Unlock()
	}
}

// controlled returns the scheduler and thread if the calling goroutine is controlled.
func controlled() (*sched, *thread) {
	s := cur()
	if s == nil {
		return nil, nil
	}
	s.mu.Lock()
	ab := s.aborted
	s.mu.Unlock()
	if ab {
		return nil, nil
	}
	t := s.me()
	if t == nil {
		return nil, nil
	}
	return s, t
}

// phantomRelease: an Unlock by a goroutine that is no longer controlled matches a Lock that was let go without the lock
var phantomMu sync.Mutex

func phantomRelease(n *int) bool {
	phantomMu.Lock()
	defer phantomMu.Unlock()
	if *n > 0 {
		*n--
		return true
	}
	return false
}

// ---------------------------------------------------------------- Mutex

type Mutex struct {
	real    sync.Mutex
	phantom int  // Lock calls that returned without the lock because their execution was aborted
	held    bool // model state (controlled mode only)
	hist    []string
}

func (m *Mutex) Lock() {
	if s := cur(); s != nil {
		if _, t := controlled(); t == nil {
			s.mu.Lock()
			m.hist = append(m.hist, fmt.Sprintf("reallock(g=%d)", goid()))
			s.mu.Unlock()
		}
	}
	if s, t := controlled(); s != nil {
		s.mu.Lock()
		n := s.lockName("M", m)
		s.mu.Unlock()
		if !s.point(t, pending{kind: opLock, name: n, mu: m}) {
			// let go without the lock (aborted execution): the matching Unlock must not touch the real lock
			phantomMu.Lock()
			m.phantom++
			phantomMu.Unlock()
		}
		return
	}
	m.real.Lock()
}

func (m *Mutex) Unlock() {
	if s, _ := controlled(); s != nil {
		s.mu.Lock()
		if !m.held {
			h := fmt.Sprint(m.hist)
			s.mu.Unlock()
			panic("vsync: unlock of unlocked Mutex; history " + h)
		}
		m.held = false
		m.hist = append(m.hist, "unlock(controlled)")
		s.mu.Unlock()
		return
	}
	if phantomRelease(&m.phantom) {
		return
	}
	if s := cur(); s != nil {
		// aborted execution unwinding: tolerate
		s.mu.Lock()
		ab := s.aborted
		wasHeld := m.held
		m.held = false
		m.hist = append(m.hist, fmt.Sprintf("unlock(uncontrolled,aborted=%v,g=%d)", ab, goid()))
		s.mu.Unlock()
		if wasHeld { // taken virtually (under this or an earlier scheduler): the real lock was never taken
			_ = ab
			return
		}
	} else if m.held {
		// taken under a scheduler that has finished since: a straggler of that execution is unwinding
		m.held = false
		return
	}
	if os.Getenv("VERIF_VSYNC_DEBUG") != "" && m.real.TryLock() {
		m.real.Unlock()
		panic(fmt.Sprintf("vsync debug: real unlock of a mutex that is not really locked; g=%d history %v", goid(), m.hist))
	}
	m.real.Unlock()
}

func (m *Mutex) TryLock() bool {
	if s, _ := controlled(); s != nil {
		s.mu.Lock()
		defer s.mu.Unlock()
		if m.held {
			return false
		}
		m.held = true
		return true
	}
	return m.real.TryLock()
}

// ---------------------------------------------------------------- RWMutex

type RWMutex struct {
	phantomW  int // Lock / RLock calls that returned without the lock because their execution was aborted
	phantomR  int
	real      sync.RWMutex
	writer    bool
	readers   int
	announced int
}

func (rw *RWMutex) Lock() {
	if s, t := controlled(); s != nil {
		s.mu.Lock()
		n := s.lockName("RW", rw)
		s.mu.Unlock()
		// Go's RWMutex: a pending writer blocks new readers. Announce, then acquire.
		if !s.point(t, pending{kind: opLock, name: n, rw: rw}) || !s.point(t, pending{kind: opLockAcquire, name: n, rw: rw}) {
			phantomMu.Lock()
			rw.phantomW++
			phantomMu.Unlock()
		}
		return
	}
	rw.real.Lock()
}

func (rw *RWMutex) Unlock() {
	if s, _ := controlled(); s != nil {
		s.mu.Lock()
		if !rw.writer {
			s.mu.Unlock()
			panic("vsync: Unlock of RWMutex that is not write-locked")
		}
		rw.writer = false
		s.mu.Unlock()
		return
	}
	if phantomRelease(&rw.phantomW) {
		return
	}
	if s := cur(); s != nil {
		s.mu.Lock()
		ab := s.aborted
		was := rw.writer
		rw.writer = false
		s.mu.Unlock()
		if was { // taken virtually (under this or an earlier scheduler): the real lock was never taken
			_ = ab
			return
		}
	} else if rw.writer {
		rw.writer = false
		return
	}
	rw.real.Unlock()
}

func (rw *RWMutex) RLock() {
	if s, t := controlled(); s != nil {
		s.mu.Lock()
		n := s.lockName("RW", rw)
		s.mu.Unlock()
		if !s.point(t, pending{kind: opRLock, name: n, rw: rw}) {
			phantomMu.Lock()
			rw.phantomR++
			phantomMu.Unlock()
		}
		return
	}
	rw.real.RLock()
}

func (rw *RWMutex) RUnlock() {
	if s, _ := controlled(); s != nil {
		s.mu.Lock()
		if rw.readers <= 0 {
			s.mu.Unlock()
			panic("vsync: RUnlock of RWMutex that is not read-locked")
		}
		rw.readers--
		s.mu.Unlock()
		return
	}
	if phantomRelease(&rw.phantomR) {
		return
	}
	if s := cur(); s != nil {
		s.mu.Lock()
		ab := s.aborted
		was := rw.readers > 0
		if was {
			rw.readers--
		}
		s.mu.Unlock()
		if was { // taken virtually (under this or an earlier scheduler): the real lock was never taken
			_ = ab
			return
		}
	} else if rw.readers > 0 {
		rw.readers--
		return
	}
	rw.real.RUnlock()
}

func (rw *RWMutex) TryLock() bool {
	if s, _ := controlled(); s != nil {
		s.mu.Lock()
		defer s.mu.Unlock()
		if rw.writer || rw.readers > 0 {
			return false
		}
		rw.writer = true
		return true
	}
	return rw.real.TryLock()
}

func (rw *RWMutex) TryRLock() bool {
	if s, _ := controlled(); s != nil {
		s.mu.Lock()
		defer s.mu.Unlock()
		if rw.writer || rw.announced > 0 {
			return false
		}
		rw.readers++
		return true
	}
	return rw.real.TryRLock()
}

type rlocker RWMutex

func (r *rlocker) Lock()   { (*RWMutex)(r).RLock() }
func (r *rlocker) Unlock() { (*RWMutex)(r).RUnlock() }

func (rw *RWMutex) RLocker() Locker { return (*rlocker)(rw) }

// ---------------------------------------------------------------- WaitGroup

type WaitGroup struct {
	real sync.WaitGroup
	n    int
	ctl  bool
}

func (wg *WaitGroup) Add(delta int) {
	s := cur()
	if s != nil && s.me() == nil && !wg.ctl {
		// a goroutine that is no thread of the running exploration (a straggler of an uncontrolled use of the package) on a
		// wait group that was never counted under a scheduler: plain semantics
		s = nil
	}
	if s != nil {
		s.mu.Lock()
		ab := s.aborted
		if !ab {
			wg.n += delta
			wg.ctl = true
			if wg.n < 0 {
				s.mu.Unlock()
				panic("vsync: negative WaitGroup counter")
			}
		}
		s.mu.Unlock()
		if !ab {
			return
		}
		if wg.ctl {
			return
		}
	}
	if wg.ctl {
		return // counted under a scheduler that has finished: a straggler's Done must not reach the real counter
	}
	wg.real.Add(delta)
}

func (wg *WaitGroup) Done() { wg.Add(-1) }

func (wg *WaitGroup) Wait() {
	if s, t := controlled(); s != nil {
		s.mu.Lock()
		n := s.lockName("WG", wg)
		s.mu.Unlock()
		s.point(t, pending{kind: opWait, name: n, wg: wg})
		return
	}
	if wg.ctl {
		return
	}
	wg.real.Wait()
}

// ---------------------------------------------------------------- Once

type Once struct {
	real    sync.Once
	done    bool
	running bool
}

func (o *Once) Do(f func()) {
	if s, t := controlled(); s != nil {
		s.mu.Lock()
		n := s.lockName("O", o)
		s.mu.Unlock()
		s.point(t, pending{kind: opOnce, name: n, once: o})
		s.mu.Lock()
		first := !o.done
		s.mu.Unlock()
		if first {
			defer func() {
				s.mu.Lock()
				o.done = true
				o.running = false
				s.mu.Unlock()
			}()
			f()
		}
		return
	}
	o.real.Do(f)
}
