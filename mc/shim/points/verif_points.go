//go:build verif

package client

// Added to package client by go build -overlay (tools/mkoverlay.py): the announcements injected before the blocking
// synchronisation operations of client.go end here.

import "sync/atomic"

var verifPointFn atomic.Value // func(string)

// VerifSetPointHook installs the callback invoked at every announced point.
func VerifSetPointHook(f func(point string)) {
	if f == nil {
		f = func(string) {}
	}
	verifPointFn.Store(f)
}

func verifPoint(p string) {
	if f, ok := verifPointFn.Load().(func(string)); ok && f != nil {
		f(p)
	}
}
