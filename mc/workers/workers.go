// Package workers runs the sessions of a check in worker sub-processes, so that a
// crash of the library (a panic in one of its own goroutines cannot be recovered
// by the harness) is attributed to the session that caused it and reported as a
// violation instead of killing the check.
package workers

import (
	"bufio"
	"bytes"
	"encoding/json"
	"fmt"
	"os"
	"os/exec"
	"runtime"
	"strconv"
	"strings"
	"sync"
	"time"

	"verif/mc/ev"
)

// Binary, if set, is the executable started as worker instead of this one (e.g. a -race build of the same program);
// ExtraEnv is added to the workers' environment.
var Binary string
var ExtraEnv []string

// IsWorker reports whether this process is a worker.
func IsWorker() bool { return os.Getenv("VERIF_WORKER") != "" }

type vline struct {
	Sig  string      `json:"sig"`
	What string      `json:"what"`
	Case interface{} `json:"case"`
}

var hbMu sync.Mutex
var hbLast time.Time
var hbOut *bufio.Writer
var hbOutMu *sync.Mutex

// Heartbeat tells the parent that the current session is still making progress (a session that enumerates many executions
// calls it once per execution; at most one line per second is written). No-op outside a worker.
func Heartbeat() {
	hbMu.Lock()
	defer hbMu.Unlock()
	if hbOut == nil || time.Since(hbLast) < time.Second {
		return
	}
	hbLast = time.Now()
	hbOutMu.Lock()
	fmt.Fprintln(hbOut, "H")
	hbOut.Flush()
	hbOutMu.Unlock()
}

// Child runs sessions [lo,hi) given by the environment and exits.
func Child(r *ev.Run, session func(i int)) {
	lo, _ := strconv.Atoi(os.Getenv("VERIF_WORKER_LO"))
	hi, _ := strconv.Atoi(os.Getenv("VERIF_WORKER_HI"))
	out := bufio.NewWriter(os.Stdout)
	var mu sync.Mutex
	hbMu.Lock()
	hbOut, hbOutMu = out, &mu
	hbMu.Unlock()
	r.OnViolation = func(sig, what string, c interface{}) {
		b, _ := json.Marshal(vline{sig, what, c})
		mu.Lock()
		fmt.Fprintf(out, "V %s\n", b)
		out.Flush()
		mu.Unlock()
	}
	emit := func() {
		b, _ := json.Marshal(r.Snapshot())
		mu.Lock()
		fmt.Fprintf(out, "S %s\n", b)
		out.Flush()
		mu.Unlock()
	}
	for i := lo; i < hi; i++ {
		mu.Lock()
		fmt.Fprintf(out, "B %d\n", i)
		out.Flush()
		mu.Unlock()
		session(i)
		mu.Lock()
		fmt.Fprintf(out, "E %d\n", i)
		mu.Unlock()
		if (i-lo)%20 == 19 {
			emit()
		}
	}
	emit()
	mu.Lock()
	fmt.Fprintln(out, "DONE")
	out.Flush()
	mu.Unlock()
	os.Exit(0)
}

// Crash describes a worker that died while running a session.
type Crash struct {
	Session int
	Stderr  string
	Timeout bool
}

// Parent distributes sessions [0,n) over worker processes. dataFile is passed to the
// workers in VERIF_WORKER_DATA. onCrash is called for every session that killed its worker.
func Parent(r *ev.Run, n, chunk int, dataFile string, perSession time.Duration, onCrash func(c Crash)) {
	procs := runtime.GOMAXPROCS(0)
	type rng struct{ lo, hi int }
	jobs := make(chan rng, n/chunk+2)
	for lo := 0; lo < n; lo += chunk {
		hi := lo + chunk
		if hi > n {
			hi = n
		}
		jobs <- rng{lo, hi}
	}
	close(jobs)
	var wg sync.WaitGroup
	for w := 0; w < procs; w++ {
		wg.Add(1)
		go func() {
			defer wg.Done()
			for j := range jobs {
				lo := j.lo
				for lo < j.hi {
					if r.Expired() {
						return
					}
					last, crashed, stderr, timeout := runWorker(r, lo, j.hi, dataFile, perSession)
					if !crashed {
						break
					}
					onCrash(Crash{Session: last, Stderr: stderr, Timeout: timeout})
					lo = last + 1
				}
			}
		}()
	}
	wg.Wait()
}

func runWorker(r *ev.Run, lo, hi int, dataFile string, perSession time.Duration) (inflight int, crashed bool, stderr string, timedOut bool) {
	bin := os.Args[0]
	if Binary != "" {
		bin = Binary
	}
	cmd := exec.Command(bin, os.Args[1:]...)
	cmd.Env = append(os.Environ(), "VERIF_WORKER=1", "VERIF_WORKER_LO="+strconv.Itoa(lo), "VERIF_WORKER_HI="+strconv.Itoa(hi), "VERIF_WORKER_DATA="+dataFile, "GOMAXPROCS=2")
	cmd.Env = append(cmd.Env, ExtraEnv...)
	var errBuf bytes.Buffer
	cmd.Stderr = &errBuf
	stdout, err := cmd.StdoutPipe()
	if err != nil {
		panic(err)
	}
	if err := cmd.Start(); err != nil {
		panic(err)
	}
	inflight = lo - 1
	done := false
	var snap *ev.Snapshot
	progress := make(chan struct{}, 1)
	finished := make(chan struct{})
	go func() {
		// watchdog: a session that makes no progress for perSession kills the worker
		t := time.NewTimer(perSession)
		defer t.Stop()
		for {
			select {
			case <-progress:
				if !t.Stop() {
					select {
					case <-t.C:
					default:
					}
				}
				t.Reset(perSession)
			case <-t.C:
				timedOut = true
				cmd.Process.Kill()
				return
			case <-finished:
				return
			}
		}
	}()
	sc := bufio.NewScanner(stdout)
	sc.Buffer(make([]byte, 1<<20), 64<<20)
	ended := lo - 1
	for sc.Scan() {
		line := sc.Text()
		switch {
		case line == "H":
			select {
			case progress <- struct{}{}:
			default:
			}
		case strings.HasPrefix(line, "B "):
			inflight, _ = strconv.Atoi(line[2:])
			select {
			case progress <- struct{}{}:
			default:
			}
		case strings.HasPrefix(line, "E "):
			ended, _ = strconv.Atoi(line[2:])
		case strings.HasPrefix(line, "V "):
			var v vline
			if json.Unmarshal([]byte(line[2:]), &v) == nil {
				r.Violation(v.Sig, v.What, v.Case)
			}
		case strings.HasPrefix(line, "S "):
			var s ev.Snapshot
			if json.Unmarshal([]byte(line[2:]), &s) == nil {
				snap = &s
			}
		case line == "DONE":
			done = true
		}
	}
	close(finished)
	_ = cmd.Wait()
	if snap != nil {
		r.Merge(*snap)
	}
	if done {
		return hi - 1, false, "", false
	}
	_ = ended
	return inflight, true, errBuf.String(), timedOut
}

// PanicInfo extracts the panic message and the first libovsdb frame from a Go crash dump.
func PanicInfo(stderr string) (msg, site string) {
	lines := strings.Split(stderr, "\n")
	for i, l := range lines {
		if strings.HasPrefix(l, "panic: ") || strings.HasPrefix(l, "fatal error: ") {
			msg = l
			for _, f := range lines[i:] {
				f = strings.TrimSpace(f)
				if strings.HasPrefix(f, "github.com/ovn-org/libovsdb/") {
					site = strings.TrimPrefix(f, "github.com/ovn-org/libovsdb/")
					if k := strings.LastIndex(site, "("); k > 0 {
						site = site[:k]
					}
					return
				}
			}
			return
		}
	}
	if len(stderr) > 300 {
		stderr = stderr[len(stderr)-300:]
	}
	return "worker died: " + stderr, "unknown"
}
