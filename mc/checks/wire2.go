package checks

// update2-format notifications built from reference-model states (shared by C14, C16, C18).

import (
	"github.com/ovn-org/libovsdb/ovsdb"

	rm "verif/mc/refmodel"
	"verif/mc/sys"
)

// one notification: table -> uuid -> change
type c14Change struct {
	Table, UUID string
	Kind        string // insert, modify, delete
	Row         rm.Row // insert: full row; modify: new values of some columns
}

type c14Note struct {
	Name    string
	Changes []c14Change
}

func c14Wire(ref *rm.Schema, st map[string]map[string]rm.Row, n c14Note) ovsdb.TableUpdates2 {
	tu := ovsdb.TableUpdates2{}
	for _, c := range n.Changes {
		if tu[c.Table] == nil {
			tu[c.Table] = ovsdb.TableUpdate2{}
		}
		t := ref.Tables[c.Table]
		ru := &ovsdb.RowUpdate2{}
		switch c.Kind {
		case "insert":
			r := sys.ToOvsRow(t, c.Row)
			ru.Insert = &r
		case "delete":
			ru.Delete = &ovsdb.Row{}
		case "modify-same":
			// a modify whose difference is empty for the current row
			r := ovsdb.Row{}
			ru.Modify = &r
		case "modify":
			diff := ovsdb.Row{}
			cur := st[c.Table][c.UUID]
			for cn, v := range c.Row {
				col := t.Cols[cn]
				var old rm.Value
				if cur != nil {
					old = cur[cn]
				} else {
					old = col.Default()
				}
				if old.Equal(v) {
					continue
				}
				switch {
				case col.IsMap:
					d := rm.MapOf()
					for k, x := range old.Map {
						if y, ok := v.Map[k]; !ok {
							d.Map[k] = x
						} else if y != x {
							d.Map[k] = y
						}
					}
					for k, y := range v.Map {
						if _, ok := old.Map[k]; !ok {
							d.Map[k] = y
						}
					}
					diff[cn] = sys.ToOvs(col, d)
				case col.Max == 1:
					diff[cn] = sys.ToOvs(col, v)
				default:
					var el []rm.Atom
					for _, a := range old.Set {
						if !v.Has(a) {
							el = append(el, a)
						}
					}
					for _, a := range v.Set {
						if !old.Has(a) {
							el = append(el, a)
						}
					}
					s := make([]interface{}, 0, len(el))
					for _, a := range el {
						s = append(s, sys.ToOvs(&rm.Col{KeyT: col.KeyT, Min: 1, Max: 1}, rm.SetOf(a)))
					}
					diff[cn] = ovsdb.OvsSet{GoSet: s}
				}
			}
			ru.Modify = &diff
		}
		var wire ovsdb.RowUpdate2
		if err := jsonRoundTrip(ru, &wire); err != nil {
			panic(err)
		}
		tu[c.Table][c.UUID] = &wire
	}
	return tu
}

// diffUpdates2 renders the difference between two database states, restricted to tables, as an update2 table-updates object.
func diffUpdates2(ref *rm.Schema, before, after *rm.DB, tables []string) ovsdb.TableUpdates2 {
	var n c14Note
	for _, t := range tables {
		for u, row := range after.T[t] {
			old, ok := before.T[t][u]
			if !ok {
				n.Changes = append(n.Changes, c14Change{t, u, "insert", row})
				continue
			}
			ch := rm.Row{}
			for cn, v := range row {
				if !old[cn].Equal(v) {
					ch[cn] = v
				}
			}
			if len(ch) > 0 {
				n.Changes = append(n.Changes, c14Change{t, u, "modify", ch})
			}
		}
		for u := range before.T[t] {
			if _, ok := after.T[t][u]; !ok {
				n.Changes = append(n.Changes, c14Change{t, u, "delete", nil})
			}
		}
	}
	return c14Wire(ref, before.T, n)
}
