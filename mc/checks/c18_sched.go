//go:build vsched

package checks

// C18, cache part: readers of the real cache run against an updater (and the dispatcher, and optionally Purge)
// under the controlled scheduler; no reader may ever hold a row that mixes two versions.

import (
	"context"
	"crypto/sha1"
	"fmt"
	"os"
	"reflect"
	"strings"
	"sync"
	"sync/atomic"
	"time"

	"github.com/go-logr/logr"
	"github.com/ovn-org/libovsdb/cache"
	"github.com/ovn-org/libovsdb/client"
	"github.com/ovn-org/libovsdb/model"
	"github.com/ovn-org/libovsdb/ovsdb"
	"github.com/ovn-org/libovsdb/verifshim/vsync"

	"verif/mc/ev"
	rm "verif/mc/refmodel"
	"verif/mc/schemas"
	"verif/mc/workers"
)

// version k of row e: every column carries k
func c18Version(e string, k int) rm.Row {
	return rm.Row{
		"a":  rm.SetOf(rm.S(fmt.Sprintf("v%d-%s", k, e))),
		"n":  rm.SetOf(rm.I(int64(k))),
		"ss": rm.SetOf(rm.S(fmt.Sprintf("s%d", k)), rm.S(fmt.Sprintf("t%d", k))),
		"m":  rm.MapOf(rm.S("k"), rm.S(fmt.Sprintf("w%d", k)), rm.S(fmt.Sprintf("k%d", k)), rm.S("x")),
	}
}

// c18VersionOf decodes the version from every column of a model; "" if they agree
func c18VersionOf(m model.Model) (int, string) {
	a := schemas.Get(m, "a").(string)
	n := schemas.Get(m, "n").(int)
	ss := schemas.Get(m, "ss").([]string)
	mm := schemas.Get(m, "m").(map[string]string)
	var ka int
	var e string
	if _, err := fmt.Sscanf(a, "v%d-%s", &ka, &e); err != nil {
		return -1, fmt.Sprintf("column a=%q is no version", a)
	}
	bad := func(what string) (int, string) {
		return -1, fmt.Sprintf("row mixes versions: a=%q n=%d ss=%v m=%v (%s)", a, n, ss, mm, what)
	}
	if n != ka {
		return bad("n")
	}
	if len(ss) != 2 {
		return bad("ss length")
	}
	for _, s := range ss {
		if s != fmt.Sprintf("s%d", ka) && s != fmt.Sprintf("t%d", ka) {
			return bad("ss")
		}
	}
	if len(mm) != 2 || mm["k"] != fmt.Sprintf("w%d", ka) || mm[fmt.Sprintf("k%d", ka)] != "x" {
		return bad("m")
	}
	return ka, ""
}

type c18Obs struct {
	reader  int
	path    string
	uuid    string
	version int // -2: absent
}

type c18CacheScenario struct {
	Name     string
	Path     string // populate2 | populate
	Steps    []string
	Readers  int
	Bound    int    // preemption bound
	Reads    string // rows | index | api
	Purge    bool
	Handlers bool // an event handler reads the cache from the dispatcher goroutine
}

func c18CacheExplore(r *ev.Run, dbs *schemas.DB, ref *rm.Schema, sc c18CacheScenario, bound int) {
	u1, u2 := c14U[0], c14U[1]
	var explore func(prefix []int)
	retry := 0
	traces := map[string][]string{}
	var lastTrace []string
	explore = func(prefix []int) {
		if r.Expired() {
			return
		}
		l := logr.Discard()
		dbm := dbs.DBModel()
		tc, err := cache.NewTableCache(dbm, nil, &l)
		if err != nil {
			panic(err)
		}
		api := client.VerifNewAPI(tc)
		var mu sync.Mutex
		var obs []c18Obs
		var torn []string
		type held struct {
			m       model.Model
			version int
			path    string
		}
		var shallow []held
		see := func(reader int, path, uuid string, m model.Model) {
			mu.Lock()
			defer mu.Unlock()
			if m == nil || reflect.ValueOf(m).IsNil() {
				obs = append(obs, c18Obs{reader, path, uuid, -2})
				return
			}
			v, msg := c18VersionOf(m)
			if msg != "" {
				torn = append(torn, fmt.Sprintf("reader %d via %s: %s", reader, path, msg))
			}
			if got := schemas.Get(m, "_uuid").(string); uuid != "" && got != uuid {
				torn = append(torn, fmt.Sprintf("reader %d via %s: asked for %s, got %s", reader, path, short(uuid), short(got)))
			}
			obs = append(obs, c18Obs{reader, path, schemas.Get(m, "_uuid").(string), v})
		}
		// a handler counts the delivered events (the dispatcher is stopped only once it has delivered everything: with both
		// its channels ready Go's select would choose at random); with sc.Handlers it reads the cache too, from the dispatcher goroutine
		var delivered int64
		tc.AddEventHandler(&cache.EventHandlerFuncs{
			AddFunc: func(t string, m model.Model) {
				if sc.Handlers {
					see(9, "handler.add", "", m)
				}
				atomic.AddInt64(&delivered, 1)
			},
			UpdateFunc: func(t string, o, n model.Model) {
				if sc.Handlers {
					see(9, "handler.update.old", "", o)
					see(9, "handler.update.new", "", n)
					if rc := tc.Table("T"); rc != nil {
						see(9, "handler.Row", "", rc.Row(schemas.Get(n, "_uuid").(string)))
					}
				}
				atomic.AddInt64(&delivered, 1)
			},
			DeleteFunc: func(t string, m model.Model) {
				if sc.Handlers {
					see(9, "handler.delete", "", m)
				}
				atomic.AddInt64(&delivered, 1)
			},
		})
		var want int64
		stop := make(chan struct{})
		var stopOnce sync.Once
		closeStop := func() { stopOnce.Do(func() { close(stop) }) }
		st := map[string]map[string]rm.Row{"T": {}, "U": {}}
		var applyErr []string
		updater := func() {
			defer closeStop()
			ver := map[string]int{}
			for _, step := range sc.Steps {
				var n c14Note
				f := strings.Fields(step)
				e := f[1]
				u := map[string]string{"e1": u1, "e2": u2}[e]
				switch f[0] {
				case "insert":
					ver[e] = 1
					n = c14Note{step, []c14Change{{"T", u, "insert", c18Version(e, 1)}}}
				case "modify":
					ver[e]++
					n = c14Note{step, []c14Change{{"T", u, "modify", c18Version(e, ver[e])}}}
				case "delete":
					n = c14Note{step, []c14Change{{"T", u, "delete", nil}}}
				case "both": // one notification modifying both rows
					ver["e1"]++
					ver["e2"]++
					n = c14Note{step, []c14Change{{"T", u1, "modify", c18Version("e1", ver["e1"])}, {"T", u2, "modify", c18Version("e2", ver["e2"])}}}
				}
				trial := map[string]map[string]rm.Row{"T": {}, "U": {}}
				for t, rows := range st {
					for uu, row := range rows {
						trial[t][uu] = row.Clone()
					}
				}
				c14RefApply(ref, trial, n)
				var err error
				if sc.Path == "populate" {
					err = tc.Populate(v1Of(ref, st, trial, n))
				} else {
					err = tc.Populate2(c14Wire(ref, st, n))
				}
				if err != nil {
					// after a purge the row is gone: later modifications are refused, which is what the client resynchronises on
					applyErr = append(applyErr, err.Error())
					if !sc.Purge {
						return
					}
					continue
				}
				st = trial
				want += int64(len(n.Changes))
			}
			vsync.Yield("drained", func() bool { return atomic.LoadInt64(&delivered) >= want })
		}
		reader := func(id int) func() {
			return func() {
				rc := tc.Table("T")
				switch sc.Reads {
				case "rows":
					see(id, "Row", u1, rc.Row(u1))
					for uu, m := range rc.Rows() {
						see(id, "Rows", uu, m)
					}
					see(id, "Row(2)", u1, tc.Table("T").Row(u1))
				case "index":
					// shallow rows are the cache's own objects: they must never change afterwards
					for uu, m := range tc.Table("T").RowsShallow() {
						v, msg := c18VersionOf(m)
						mu.Lock()
						if msg != "" {
							torn = append(torn, fmt.Sprintf("reader %d via RowsShallow: %s", id, msg))
						}
						shallow = append(shallow, held{m, v, "RowsShallow " + short(uu)})
						mu.Unlock()
					}
					// index look-ups: by value of version 2 of e1
					probe := dbs.NewModel("T")
					schemas.Set(probe, "a", "v2-e1")
					if _, m, err := tc.Table("T").RowByModel(probe); err == nil && m != nil {
						see(id, "RowByModel(index a)", u1, m)
						if v, _ := c18VersionOf(m); v != 2 {
							mu.Lock()
							torn = append(torn, fmt.Sprintf("reader %d: index look-up a=v2-e1 returned version %d", id, v))
							mu.Unlock()
						}
					}
					if rows, err := tc.Table("T").RowsByCondition([]ovsdb.Condition{{Column: "a", Function: ovsdb.ConditionEqual, Value: "v2-e1"}}); err == nil {
						for uu, m := range rows {
							see(id, "RowsByCondition(a==)", uu, m)
							if v, _ := c18VersionOf(m); v != 2 {
								mu.Lock()
								torn = append(torn, fmt.Sprintf("reader %d: condition a==v2-e1 returned version %d", id, v))
								mu.Unlock()
							}
						}
					}
				case "api":
					g := dbs.NewModel("T")
					schemas.Set(g, "_uuid", u1)
					if err := api.Get(context.Background(), g); err == nil {
						see(id, "api.Get", u1, g)
					}
					lst := reflect.New(reflect.SliceOf(dbs.Types["T"]))
					if err := api.List(context.Background(), lst.Interface()); err == nil {
						for i := 0; i < lst.Elem().Len(); i++ {
							see(id, "api.List", "", lst.Elem().Index(i).Interface())
						}
					}
					see(id, "Row(2)", u1, tc.Table("T").Row(u1))
				}
			}
		}
		fns := []func(){updater, func() { tc.Run(stop) }}
		for i := 0; i < sc.Readers; i++ {
			fns = append(fns, reader(i))
		}
		if sc.Purge {
			fns = append(fns, func() { tc.Purge(dbm) })
		}
		res := vsync.Explore(fns, prefix, 4000, 10*time.Second)
		closeStop()
		if res.Diverged != "" && os.Getenv("VERIF_DIVERGE") != "" {
			fmt.Fprintf(ev.Err, "DIVERGED %s prefix=%v\n", res.Diverged, prefix)
			for i, p := range res.Points {
				fmt.Fprintf(ev.Err, "   %d %v -> %s\n", i, p.Enabled, p.Op)
			}
			fmt.Fprintf(ev.Err, " parent:\n")
			for i, p := range lastTrace {
				fmt.Fprintf(ev.Err, "   %d %s\n", i, p)
			}
			os.Exit(3)
		}
		if res.Diverged != "" && retry < 6 {
			retry++
			explore(prefix)
			return
		}
		retry = 0
		r.Add("cache_executions", 1)
		workers.Heartbeat()
		r.Add("transitions", int64(len(res.Points)))
		var trace []string
		for _, p := range res.Points {
			trace = append(trace, fmt.Sprint(p.Enabled, " -> ", p.Op))
		}
		if res.Diverged == "" {
			traces[fmt.Sprint(res.Choices)] = trace
		}
		cse := func(msg string) interface{} {
			return map[string]interface{}{"scenario": sc, "schedule": res.Choices, "trace": trace, "msg": msg}
		}
		sig := sc.Path
		if sc.Purge {
			sig += "+purge"
		}
		switch {
		case res.Diverged != "":
			r.Add("diverged_replays", 1)
			r.Exhaustive = false
			return
		case res.Deadlock:
			r.Violation("c18.cache.deadlock."+sig, fmt.Sprintf("[%s] schedule %v: deadlock; blocked: %v", sc.Name, res.Choices, res.Blocked), cse("deadlock"))
			return
		case res.Hang:
			r.Violation("c18.cache.hang."+sig, fmt.Sprintf("[%s] schedule %v: a thread did not return to the scheduler: %v", sc.Name, res.Choices, res.Blocked), cse("hang"))
			return
		case len(res.ThreadErr) > 0:
			r.Violation("c18.cache.panic."+sig, fmt.Sprintf("[%s] schedule %v: %v", sc.Name, res.Choices, res.ThreadErr), cse(strings.Join(res.ThreadErr, ";")))
			return
		}
		if len(torn) > 0 {
			r.Violation("c18.cache.torn-row."+sig, fmt.Sprintf("[%s] schedule %v: %s", sc.Name, res.Choices, torn[0]), cse(strings.Join(torn, "; ")))
			return
		}
		// objects handed out by RowsShallow are still what they were
		for _, h := range shallow {
			if v, msg := c18VersionOf(h.m); msg != "" || v != h.version {
				r.Violation("c18.cache.cached-object-modified-in-place."+sig, fmt.Sprintf("[%s] schedule %v: a model obtained through %s at version %d reads as version %d later (%s)", sc.Name, res.Choices, h.path, h.version, v, msg), cse("in place"))
				return
			}
		}
		// per reader and row, versions never go backwards (without Purge nothing is ever older than what was seen)
		if !sc.Purge {
			last := map[string]int{}
			for _, o := range obs {
				if o.reader == 9 || o.version < 0 {
					continue
				}
				k := fmt.Sprint(o.reader, o.uuid)
				if o.version < last[k] {
					r.Violation("c18.cache.version-goes-backwards."+sig, fmt.Sprintf("[%s] schedule %v: reader %d saw version %d of %s via %s after version %d", sc.Name, res.Choices, o.reader, o.version, short(o.uuid), o.path, last[k]), cse("backwards"))
					return
				}
				last[k] = o.version
			}
		}
		var sum []string
		for _, o := range obs {
			sum = append(sum, fmt.Sprintf("%d:%s:%d", o.reader, o.path, o.version))
		}
		r.Distinct("cache_outcomes", strings.Join(sum, ","))
		key := fmt.Sprintf("cache:%x", sha1.Sum([]byte(fmt.Sprint(sc.Name, res.Choices))))[:22]
		r.Distinct("states", key)
		r.Distinct("nontrivial", key)
		cost := 0
		for i, p := range res.Points {
			if i >= len(prefix) {
				for alt := 1; alt < len(p.Enabled); alt++ {
					c := cost
					if p.PrevStill {
						c++
					}
					if c > bound {
						continue
					}
					lastTrace = trace
					explore(append(append([]int{}, res.Choices[:i]...), alt))
				}
			}
			if p.PrevStill && res.Choices[i] != 0 {
				cost++
			}
		}
	}
	explore(nil)
}

func c18CacheScenarios(tier string) (scs []c18CacheScenario, bound int) {
	bound = 2
	if tier == "thorough" {
		bound = 3
	}
	for _, reads := range []string{"rows", "index", "api"} {
		scs = append(scs,
			c18CacheScenario{Name: "insert, modify, modify || 1 reader", Path: "populate2", Steps: []string{"insert e1", "modify e1", "modify e1"}, Readers: 1, Reads: reads},
			c18CacheScenario{Name: "insert, modify, modify || 1 reader (update v1)", Path: "populate", Steps: []string{"insert e1", "modify e1", "modify e1"}, Readers: 1, Reads: reads},
			c18CacheScenario{Name: "two rows, one notification modifies both || 1 reader + handler", Path: "populate2", Steps: []string{"insert e1", "insert e2", "both e1"}, Readers: 1, Handlers: true, Reads: reads},
			c18CacheScenario{Name: "insert, modify, delete || 2 readers", Path: "populate2", Steps: []string{"insert e1", "modify e1", "delete e1"}, Readers: 2, Reads: reads},
			c18CacheScenario{Name: "insert, modify, modify || reader || Purge", Path: "populate2", Steps: []string{"insert e1", "modify e1", "modify e1"}, Readers: 1, Purge: true, Reads: reads},
		)
		if tier == "thorough" {
			scs = append(scs,
				c18CacheScenario{Name: "insert, modify x3 || 2 readers + handler", Path: "populate2", Steps: []string{"insert e1", "modify e1", "modify e1", "modify e1"}, Readers: 2, Handlers: true, Reads: reads},
				c18CacheScenario{Name: "insert, modify, modify || reader + handler || Purge (update v1)", Path: "populate", Steps: []string{"insert e1", "modify e1", "modify e1"}, Readers: 1, Purge: true, Handlers: true, Reads: reads},
			)
		}
	}
	for i := range scs {
		scs[i].Name += " reading through " + scs[i].Reads
		// four threads (two readers, or Purge) get one preemption less
		scs[i].Bound = bound
		if scs[i].Readers > 1 || scs[i].Purge {
			scs[i].Bound = bound - 1
		}
	}
	return
}

// c18CacheN is the number of cache scenarios of the tier; c18CacheRun runs one of them
func c18CacheN(tier string) int { scs, _ := c18CacheScenarios(tier); return len(scs) }

func c18CacheRun(r *ev.Run, i int) {
	scs, _ := c18CacheScenarios(r.Tier)
	dbs := schemas.MustBuild(c14Schema, nil)
	c18CacheExplore(r, dbs, rm.FromOvsdb(dbs.Schema), scs[i], scs[i].Bound)
	r.Set(fmt.Sprintf("cache_preemption_bound[%s]", scs[i].Name), scs[i].Bound)
}
