package checks

// C16 — after losing its connection the client resynchronises completely.

import (
	"context"
	"encoding/json"
	"fmt"
	"os"
	"path/filepath"
	"runtime"
	"sort"
	"strings"
	"sync"
	"time"

	"github.com/cenkalti/backoff/v4"
	"github.com/ovn-org/libovsdb/client"
	"github.com/ovn-org/libovsdb/ovsdb"

	"verif/mc/e2e"
	"verif/mc/ev"
	rm "verif/mc/refmodel"
	"verif/mc/sys"
	"verif/mc/workers"
)

func init() { register("C16", "fault_enumeration", runC16) }

type c16Session struct {
	Method   string
	Monitors int  // 1 or 2
	Away     int  // bitmask over the away transactions
	Cut      int  // message index (on the connection CutConn) before which the connection is cut; -1 = none
	CutConn  int  // connection number the cut applies to
	Cut2     int  // second cut: message index on the connection after CutConn; -1 = none
	After    bool // cut right after forwarding the message instead of before it
	Silent   bool // instead of closing, the peer goes silent at that message (client built with the inactivity check)
	Leader   int  // >0: leader-only session with two servers; leadership moves at step boundary Leader (and back Cut2 steps later if Cut2>=0); Away bit 0 = endpoint order
	Late     bool // a transaction is committed while the first restarted monitor is parked between its reply and the cache
	Outage   bool // the peer stays unreachable for several times the client's reconnect timeout (a short one) before it lets the client back
}

func (s c16Session) String() string {
	if s.Outage {
		return fmt.Sprintf("method=%s monitors=%d away=%03b cut=%d; the peer refuses connections for 3 reconnect timeouts (120 ms each) before it accepts again", s.Method, s.Monitors, s.Away, s.Cut)
	}
	if s.Late {
		return fmt.Sprintf("method=%s monitors=%d away=%03b cut=conn%d/msg%d, a transaction committed while the restarted monitor is parked after its reply, second cut at msg %d of the next connection (-1 = none)", s.Method, s.Monitors, s.Away, s.CutConn, s.Cut, s.Cut2)
	}
	if s.Leader > 0 {
		return fmt.Sprintf("method=%s monitors=%d leader-only client, two servers (endpoint order %d); leadership moves at step boundary %d, back %d steps later (-1 = never)", s.Method, s.Monitors, s.Away&1, s.Leader, s.Cut2)
	}
	if s.Silent {
		return fmt.Sprintf("method=%s monitors=%d away=%03b peer silent from conn%d/msg%d on (inactivity probe)", s.Method, s.Monitors, s.Away, s.CutConn, s.Cut)
	}
	return fmt.Sprintf("method=%s monitors=%d away=%03b cut=conn%d/msg%d(after=%v) cut2=%d", s.Method, s.Monitors, s.Away, s.CutConn, s.Cut, s.After, s.Cut2)
}

// monitored tables per Monitor call
var c16Mons = []map[string][]string{{"R": nil, "PR": nil}, {"N1": nil, "N2": nil}}

func c16Script() (setup []rm.Op, t1, t2 []rm.Op, marker rm.Op, away [][]rm.Op) {
	str := func(s string) rm.Value { return rm.SetOf(rm.S(s)) }
	setup = []rm.Op{
		opInsert("N2", uN2[0], rm.Row{"name": str("b1")}),
		opInsert("N1", uN1[0], rm.Row{"name": str("a1"), "next": uset(uN2[0])}),
		opInsert("N1", uN1[1], rm.Row{"name": str("a2")}),
		opInsert("R", uR[0], rm.Row{"name": str("r1"), "sset": uset(uN1[0], uN1[1]), "cnt": rm.SetOf(rm.I(3))}),
		opInsert("PR", uPR[0], rm.Row{"name": str("p1")}),
	}
	t1 = []rm.Op{opUpdate("R", uR[0], rm.Row{"cnt": rm.SetOf(rm.I(4))}), opUpdate("N1", uN1[0], rm.Row{"name": str("a1-t1")})}
	t2 = []rm.Op{opMutate("R", uR[0], "cnt", "+=", rm.SetOf(rm.I(10))), opUpdate("N2", uN2[0], rm.Row{"name": str("b1-t2")})}
	marker = rm.Op{Op: "insert", Table: "R", Row: rm.Row{"name": str("MARKER")}} // no explicit UUID: applying it twice leaves two rows
	away = [][]rm.Op{
		{opInsert("N1", uN1[2], rm.Row{"name": str("a3-away")}), opMutate("R", uR[0], "sset", "insert", uset(uN1[2]))}, // insert
		{opUpdate("N1", uN1[1], rm.Row{"name": str("a2-away")}), opUpdate("R", uR[0], rm.Row{"name": str("r1-away")})}, // modify cached rows
		{opMutate("R", uR[0], "sset", "delete", uset(uN1[0])), opDelete("PR", uPR[0])},                                 // delete cached rows (a1, b1 collected)
	}
	return
}

func c16Run(r *ev.Run, s c16Session, record bool) (msgs []e2e.Msg) {
	if s.Leader > 0 {
		c16LeaderRun(r, s)
		return nil
	}
	dbs := srefDB(false)
	ref := rm.FromOvsdb(dbs.Schema)
	setup, t1, t2, marker, away := c16Script()
	env := e2e.Start(dbs)
	defer env.Close()
	px := env.WithProxy()
	if res, err := env.Sys.TransactRef(setup); err != nil || len(res) != len(setup) {
		panic(fmt.Sprint("setup failed", res, err))
	}
	// "+ids": the proxy makes the in-tree server (which never recognises a transaction id and never sends update3) behave
	// like ovsdb-server for monitor_cond_since: every transaction gets an id, update2 notifications go out as update3 with
	// that id, and a monitor_cond_since request naming a known id is answered found=true with the difference since then
	ids := strings.HasSuffix(s.Method, "+ids")
	method := strings.TrimSuffix(s.Method, "+ids")
	type snap struct {
		id string
		st *rm.DB
	}
	var idMu sync.Mutex
	var hist []snap
	pending := ""
	// the emulation attributes a notification to the transaction during which it passes the proxy; that is right as long as
	// the server finishes a transaction only after its notifications were acknowledged. If a notification turns up outside a
	// transaction, or two for one monitor inside one, that premise does not hold for the server under test: the session is
	// then not judged (counted), instead of being judged on a wrong emulation
	inTxn := false
	seenInTxn := map[string]int{}
	premiseBroken := false
	begin := func() {
		idMu.Lock()
		pending = fmt.Sprintf("dddddddd-0000-0000-0000-%012d", len(hist)+1)
		inTxn = true
		seenInTxn = map[string]int{}
		idMu.Unlock()
	}
	commit := func() {
		defer func() {
			idMu.Lock()
			inTxn = false
			idMu.Unlock()
		}()
		// the server holds its transaction lock from the first operation to the commit, notifications included: a read-only
		// transaction of our own returns only once an earlier transaction whose caller was cut off has been committed
		_, _ = env.Sys.TransactRef([]rm.Op{{Op: "select", Table: "RW"}})
		st := env.Sys.State()
		idMu.Lock()
		hist = append(hist, snap{pending, st})
		idMu.Unlock()
	}
	txn := func(ops []rm.Op) ([]ovsdb.OperationResult, error) {
		begin()
		res, err := env.Sys.TransactRef(ops)
		commit()
		return res, err
	}
	begin()
	commit() // the contents after the setup
	if ids {
		px.Rewrite = func(m e2e.Msg) json.RawMessage {
			if m.Dir != "s2c" {
				return nil
			}
			if m.Method == "update2" {
				var n struct {
					Params []json.RawMessage `json:"params"`
				}
				if json.Unmarshal(m.Raw, &n) != nil || len(n.Params) != 2 {
					return nil
				}
				idMu.Lock()
				id := pending
				key := fmt.Sprint(m.Conn, string(n.Params[0]))
				seenInTxn[key]++
				if !inTxn || seenInTxn[key] > 1 {
					premiseBroken = true
				}
				idMu.Unlock()
				b, _ := json.Marshal(map[string]interface{}{"id": json.RawMessage(m.ID), "method": "update3", "params": []interface{}{n.Params[0], id, n.Params[1]}})
				return b
			}
			if !m.IsResp {
				return nil
			}
			for _, q := range px.Messages() {
				if q.Conn != m.Conn || q.Dir != "c2s" || q.ID != m.ID || q.Method != "monitor_cond_since" {
					continue
				}
				var req struct {
					Params []json.RawMessage `json:"params"`
				}
				var rep struct {
					Result []json.RawMessage `json:"result"`
					Error  json.RawMessage   `json:"error"`
				}
				if json.Unmarshal(q.Raw, &req) != nil || len(req.Params) != 4 || json.Unmarshal(m.Raw, &rep) != nil || len(rep.Result) != 3 {
					return nil
				}
				var last string
				var reqs map[string]json.RawMessage
				_ = json.Unmarshal(req.Params[3], &last)
				_ = json.Unmarshal(req.Params[2], &reqs)
				var tables []string
				for t := range reqs {
					tables = append(tables, t)
				}
				sort.Strings(tables)
				// which transaction does this reply reflect? The server answered under its transaction lock; if a transaction of
				// the harness is in flight, its snapshot may not be recorded yet although the server has committed it (its
				// caller was cut off, or is still in the barrier): wait for the record, then take the newest snapshot whose
				// contents are the ones the server put in the reply
				var contents ovsdb.TableUpdates2
				_ = json.Unmarshal(rep.Result[2], &contents)
				idMu.Lock()
				cur := hist[len(hist)-1]
				for try := 0; ; try++ {
					matched := false
					for i := len(hist) - 1; i >= 0 && i >= len(hist)-3; i-- {
						if c16ReplyMatches(ref, contents, hist[i].st, tables) {
							cur, matched = hist[i], true
							break
						}
					}
					if matched || !inTxn || try > 4000 {
						if !matched {
							cur = hist[len(hist)-1]
						}
						break
					}
					idMu.Unlock()
					time.Sleep(500 * time.Microsecond)
					idMu.Lock()
				}
				var known *snap
				for i := range hist {
					if hist[i].id == last {
						known = &hist[i]
					}
				}
				idMu.Unlock()
				var result []interface{}
				if known != nil {
					result = []interface{}{true, cur.id, diffUpdates2(ref, known.st, cur.st, tables)}
					r.Add("monitor_cond_since_found_true", 1)
					if known.id != cur.id {
						r.Add("monitor_cond_since_found_true_nonempty_difference", 1)
					}
				} else {
					result = []interface{}{false, cur.id, rep.Result[2]}
				}
				b, err := json.Marshal(map[string]interface{}{"id": json.RawMessage(m.ID), "result": result, "error": nil})
				if err != nil {
					panic(err)
				}
				return b
			}
			return nil
		}
	}
	feature := fmt.Sprintf("%s.mon%d", s.Method, s.Monitors)
	cse := func(msg string) interface{} {
		return map[string]interface{}{"session": s.String(), "msg": msg, "messages": summarize(px.Messages())}
	}
	// fault controller
	var mu sync.Mutex
	cutDone := 0
	cutAt := make(chan int, 4)
	// message numbers count what the session itself exchanges: the echo probes of the inactivity check (silent-peer sessions)
	// come at times of their own and are left out
	logical := map[int]int{}      // connection -> number of non-probe messages seen
	probeIDs := map[string]bool{} // "conn/id" of echo requests
	silenced := map[int]bool{}
	px.Decide = func(m e2e.Msg) e2e.Decision {
		mu.Lock()
		defer mu.Unlock()
		if m.Dir == "c2s" && m.Method == "echo" {
			probeIDs[fmt.Sprint(m.Conn, "/", m.ID)] = true
			return e2e.Forward
		}
		if silenced[m.Conn] && m.Dir == "s2c" {
			return e2e.Swallow
		}
		if m.Dir == "s2c" && m.IsResp && probeIDs[fmt.Sprint(m.Conn, "/", m.ID)] {
			return e2e.Forward
		}
		idx := logical[m.Conn]
		logical[m.Conn]++
		hit := (cutDone == 0 && s.Cut >= 0 && m.Conn == s.CutConn && idx == s.Cut) || (cutDone == 1 && s.Cut2 >= 0 && m.Conn > s.CutConn && idx == s.Cut2)
		if !hit {
			return e2e.Forward
		}
		cutDone++
		if cutDone == 1 {
			px.SetAccept(false) // the client stays away until the away transactions are committed
		}
		if s.Silent {
			// the peer goes silent instead of closing: nothing more reaches the client on this connection; it has to notice
			// through its inactivity probe
			silenced[m.Conn] = true
			cutAt <- m.Conn
			if m.Dir == "s2c" {
				return e2e.Swallow
			}
			return e2e.Forward
		}
		cutAt <- m.Conn
		if s.After {
			return e2e.CutAfter
		}
		return e2e.CutBefore
	}
	opt := client.WithReconnect(2*time.Second, backoff.NewConstantBackOff(time.Millisecond))
	if s.Silent {
		opt = client.WithInactivityCheck(80*time.Millisecond, 2*time.Second, backoff.NewConstantBackOff(time.Millisecond))
	}
	if s.Outage {
		opt = client.WithReconnect(c16OutageTimeout, backoff.NewConstantBackOff(2*time.Millisecond))
	}
	c := e2e.NewClient(dbs, px.Sock, opt)
	defer c.Close()
	pz := e2e.NewPauser(c)
	defer pz.Detach(c)
	ctx, cancel := context.WithTimeout(context.Background(), 20*time.Second)
	defer cancel()
	registered := 0 // monitors the client has registered successfully
	awayDone := false
	lastCutConn := -1
	// handle a cut that has happened: commit the away transactions, let the client back, wait until it has resynchronised
	handshakeDone := func(after, want int) func(fwd []e2e.Msg) bool {
		return func(fwd []e2e.Msg) bool {
			// a connection newer than the cut one has completed its handshake: schema reply and one reply per monitor request
			type cs struct {
				schema, monRep int
				ids            map[string]string
			}
			per := map[int]*cs{}
			get := func(conn int) *cs {
				st := per[conn]
				if st == nil {
					st = &cs{ids: map[string]string{}}
					per[conn] = st
				}
				return st
			}
			// the two directions are logged by different goroutines: first collect the requests, then match the replies
			for _, m := range fwd {
				if m.Conn > after && m.Dir == "c2s" && !m.IsResp {
					get(m.Conn).ids[m.ID] = m.Method
				}
			}
			for _, m := range fwd {
				if m.Conn > after && m.Dir == "s2c" && m.IsResp {
					st := get(m.Conn)
					switch meth := st.ids[m.ID]; {
					case meth == "get_schema":
						st.schema++
					case strings.HasPrefix(meth, "monitor"):
						st.monRep++
					}
				}
			}
			for _, st := range per {
				if st.schema >= 1 && st.monRep >= want {
					return true
				}
			}
			return false
		}
	}
	silentUndetected := false
	reportsConnected := false
	var settle func(depth int) bool
	settle = func(depth int) bool {
		// a server that does not wait for acknowledgements returns from a transaction while its notification (and the cut it
		// may trigger) is still on its way through the proxy
		px.Quiesce(8*time.Millisecond, 2*time.Second)
		for drained := false; !drained; {
			select {
			case conn := <-cutAt:
				lastCutConn = conn
				if s.Silent && !px.WaitClosed(conn, 8*time.Second) {
					// 100 inactivity periods have passed and the client still holds on to the silent connection
					silentUndetected = true
					return false
				}
				if !awayDone {
					awayDone = true
					for i, a := range away {
						if s.Away&(1<<i) != 0 {
							if res, err := txn(a); err != nil || len(res) != len(a) {
								panic(fmt.Sprint("away transaction failed", res, err))
							}
						}
					}
					if s.Late && registered > 0 {
						// the first monitor restarted on the new connection is parked between its reply and the cache; a transaction
						// committed meanwhile is notified on the new connection and has to survive the resynchronisation
						arrived := pz.Hold("monitor:reply")
						px.SetAccept(true)
						select {
						case <-arrived:
							r.Add("late_transactions_during_monitor_restart", 1)
							// modifications only (a replayed insert or delete would be refused by the cache and heal itself through a full
							// resynchronisation); the set element is the kind of change that silently toggles back if it is applied twice
							lateOps := []rm.Op{opUpdate("R", uR[0], rm.Row{"name": rm.SetOf(rm.S("late"))}), opMutate("R", uR[0], "wset", "insert", uset(uN1[1])), opUpdate("N1", uN1[1], rm.Row{"name": rm.SetOf(rm.S("late-n1"))})}
							_, _ = txn(lateOps)
						case <-time.After(5 * time.Second):
						}
						pz.Release("monitor:reply")
					} else {
						if s.Outage {
							// every attempt made meanwhile is refused; the attempts made after the outage get the full timeout again
							t0 := time.Now()
							time.Sleep(c16OutageTimeout)
							// the connection has been gone for a whole reconnect timeout and every attempt is refused: the client must
							// stop reporting that it is connected (a loaded machine gets 5 s to notice, the peer staying unreachable)
							for c.Connected() && time.Since(t0) < 5*time.Second {
								time.Sleep(5 * time.Millisecond)
							}
							if c.Connected() {
								reportsConnected = true
							}
							if rest := 3*c16OutageTimeout - time.Since(t0); rest > 0 {
								time.Sleep(rest)
							}
							r.Add("outages_longer_than_the_reconnect_timeout", 1)
						}
						px.SetAccept(true)
					}
				}
			default:
				drained = true
			}
		}
		if lastCutConn < 0 {
			return true
		}
		ok := px.WaitFor(handshakeDone(lastCutConn, registered), 15*time.Second)
		again := false
		select {
		case conn := <-cutAt: // another cut hit in the meantime (double fault)
			cutAt <- conn
			again = true
		default:
		}
		if again && depth < 3 {
			return settle(depth + 1)
		}
		if !ok {
			return false
		}
		_ = c.Connected() // blocks on the client's rpc lock until connect() has restarted the monitors and applied deferred updates
		return true
	}
	doSettle := func(step string) bool {
		if settle(0) {
			return true
		}
		buf := make([]byte, 4<<20)
		buf = buf[:runtime.Stack(buf, true)]
		var stuck []string
		for _, g := range strings.Split(string(buf), "\n\n") {
			if strings.Contains(g, "libovsdb/client.") {
				stuck = append(stuck, g)
			}
		}
		if silentUndetected {
			r.Violation("c16.silent-peer-not-detected."+feature+"."+step, fmt.Sprintf("[%s] at step %q the peer went silent; 8 s (100 inactivity periods) later the client has not given the connection up", s, step), cse("silent peer not detected"))
			return false
		}
		c := cse("no reconnect").(map[string]interface{})
		c["client_goroutines"] = stuck
		c["forwarded"] = summarize(px.ForwardedMsgs())
		c["last_cut_conn"] = lastCutConn
		r.Violation("c16.no-reconnect."+feature+"."+step, fmt.Sprintf("[%s] after the cut at step %q the client did not re-establish its session (handshake + %d monitors) within the watchdog", s, step, registered), c)
		return false
	}
	// 1. connect (retried: Connect itself does not reconnect)
	connected := false
	for try := 0; try < 4 && !connected; try++ {
		cctx, ccancel := context.WithTimeout(ctx, 1500*time.Millisecond) // no probe runs yet while connecting: a silent peer is met by the caller's deadline
		err := c.Connect(cctx)
		ccancel()
		if err == nil {
			connected = true
			break
		}
		// a cut during the first handshake: nothing to resynchronise yet
		select {
		case <-cutAt:
			if !awayDone {
				awayDone = true
				for i, a := range away {
					if s.Away&(1<<i) != 0 {
						txn(a)
					}
				}
				px.SetAccept(true)
			}
		default:
		}
	}
	if !connected {
		r.Violation("c16.connect."+feature, fmt.Sprintf("[%s] Connect keeps failing", s), cse("connect"))
		return px.Messages()
	}
	monitored := map[string][]string{}
	for mi := 0; mi < s.Monitors; mi++ {
		ok := false
		for try := 0; try < 4 && !ok; try++ {
			m := c.NewMonitor()
			m.Method = method
			var tn []string
			for t := range c16Mons[mi] {
				tn = append(tn, t)
			}
			sort.Strings(tn)
			for _, t := range tn {
				m.Tables = append(m.Tables, client.TableMonitor{Table: t})
			}
			// a call in flight holds the client's rpc lock, which keeps the inactivity probe from disconnecting: with a silent
			// peer the call ends when its own deadline does (noted in DESIGN.md), so silent-peer sessions give it a short one
			callT := 20 * time.Second
			if s.Silent {
				callT = 1200 * time.Millisecond
			}
			mctx, mcancel := context.WithTimeout(context.Background(), callT)
			_, err := c.Monitor(mctx, m)
			mcancel()
			if err == nil {
				ok = true
				registered++
			}
			if !doSettle(fmt.Sprintf("monitor%d", mi+1)) {
				return px.Messages()
			}
		}
		if !ok {
			r.Violation("c16.monitor."+feature, fmt.Sprintf("[%s] Monitor #%d keeps failing", s, mi+1), cse("monitor"))
			return px.Messages()
		}
		for t := range c16Mons[mi] {
			monitored[t] = nil
		}
	}
	// 2. another client's transaction
	if res, err := txn(t1); err != nil || len(res) != len(t1) {
		panic(fmt.Sprint("t1 failed", res, err))
	}
	if !doSettle("t1") {
		return px.Messages()
	}
	// 3. the client's own transaction with a unique marker
	transactT := 10 * time.Second
	if s.Silent {
		transactT = 1200 * time.Millisecond
	}
	tctx, tcancel := context.WithTimeout(context.Background(), transactT)
	begin()
	res, terr := c.Transact(tctx, sys.ToOvsOp(ref, marker))
	tcancel()
	commit()
	if !doSettle("own-transact") {
		return px.Messages()
	}
	// 4. one more
	if res, err := txn(t2); err != nil || len(res) != len(t2) {
		panic(fmt.Sprint("t2 failed", res, err))
	}
	if !doSettle("t2") {
		return px.Messages()
	}
	if record {
		return px.Messages()
	}
	// ---- oracle
	// the notifications the server has sent are behind an echo round trip (the client handles incoming messages in order);
	// this does not rely on the server waiting for acknowledgements
	barrier := func() {
		ectx, ecancel := context.WithTimeout(context.Background(), 10*time.Second)
		_ = c.Echo(ectx)
		ecancel()
	}
	barrier()
	idMu.Lock()
	broken := premiseBroken
	idMu.Unlock()
	if ids && broken {
		r.Add("sessions_not_judged_emulation_premise_broken", 1)
		r.Exhaustive = false
		return px.Messages()
	}
	db := env.Sys.State()
	r.Add("sessions_completed", 1)
	if reportsConnected {
		r.Violation("c16.reports-connected-during-outage."+feature, fmt.Sprintf("[%s] 5 s after the connection was cut, with the peer refusing every new connection, Connected() still answers true (the cache is not following the database)", s), cse("Connected() during the outage"))
	}
	if d := c01Compare(ref, e2e.CacheState(ref, c), db, monitored); d != "" {
		r.Violation("c16.cache-differs."+feature, fmt.Sprintf("[%s] after the session the cache differs from the database:\n%s", s, d), cse(d))
	}
	markers := 0
	for _, row := range db.T["R"] {
		if row["name"].Equal(rm.SetOf(rm.S("MARKER"))) {
			markers++
		}
	}
	succeeded := terr == nil && len(res) == 1 && res[0].Error == ""
	if succeeded && markers != 1 {
		r.Violation("c16.transact-results-but-not-once."+feature, fmt.Sprintf("[%s] Transact returned results but the marker row exists %d times", s, markers), cse("marker"))
	}
	if !succeeded && markers > 1 {
		r.Violation("c16.transact-error-but-applied-twice."+feature, fmt.Sprintf("[%s] Transact returned %v but the marker row exists %d times", s, terr, markers), cse("marker"))
	}
	r.Distinct("outcomes", fmt.Sprintf("transact-ok=%v markers=%d", succeeded, markers))
	// all monitors still registered on the server: a further transaction reaches the cache
	probe := []rm.Op{opUpdate("R", uR[0], rm.Row{"imm": rm.SetOf(rm.S(""))}), opUpdate("N1", uN1[1], rm.Row{"name": rm.SetOf(rm.S("final"))}), opUpdate("R", uR[0], rm.Row{"cnt": rm.SetOf(rm.I(99))})}
	if _, err := txn(probe); err == nil && doSettle("probe") {
		barrier()
		if d := c01Compare(ref, e2e.CacheState(ref, c), env.Sys.State(), monitored); d != "" {
			r.Violation("c16.monitor-lost."+feature, fmt.Sprintf("[%s] a transaction committed after the resynchronisation does not reach the cache:\n%s", s, d), cse(d))
		}
	}
	if s.Cut >= 0 {
		r.Distinct("nontrivial", s.String())
	}
	return px.Messages()
}

func summarize(ms []e2e.Msg) []string {
	var out []string
	for _, m := range ms {
		k := m.Method
		if m.IsResp {
			k = "reply"
		}
		out = append(out, fmt.Sprintf("c%d#%d %s %s id=%s", m.Conn, m.Index, m.Dir, k, m.ID))
	}
	return out
}

func runC16(r *ev.Run) {
	r.Set("rule", "session = connect, 1-2 monitors, a transaction by another client, the client's own marker transaction, another transaction; fault = the proxy closes both sides before (thorough: also right after) message k, for every message k of the fault-free session; while the client is away a subset of {insert, modify, delete of cached rows} is committed; then cache == database on every monitored table, a later transaction still reaches the cache, and the marker row exists exactly once if Transact returned results, at most once if it returned an error; non-trivial = session with a cut")
	r.Assume("reconnection is awaited without sleeping: the proxy has forwarded the schema reply and one reply per registered monitor on a newer connection, then Connected() (which blocks on the client's rpc lock until connect() finished) is called; 15 s watchdog")
	r.Assume("monitor_cond_since with found=true and update3 are produced by the proxy on top of the in-tree server (method monitor_cond_since+ids): transaction ids, update3, and the difference since a known id computed from recorded reference-model states")
	var sessions []c16Session
	defer e2e.Cleanup()
	if one := os.Getenv("VERIF_C16_ONE"); one != "" {
		var s c16Session
		if err := json.Unmarshal([]byte(one), &s); err != nil {
			panic(err)
		}
		t0 := time.Now()
		msgs := c16Run(r, s, false)
		fmt.Fprintf(ev.Out, "session %s took %v\n%s\n", s, time.Since(t0), strings.Join(summarize(msgs), "\n"))
		return
	}
	if workers.IsWorker() {
		b, err := os.ReadFile(os.Getenv("VERIF_WORKER_DATA"))
		if err != nil {
			panic(err)
		}
		if err := json.Unmarshal(b, &sessions); err != nil {
			panic(err)
		}
		workers.Child(r, func(i int) {
			defer func() {
				if p := recover(); p != nil {
					r.Violation("c16.harness-panic", fmt.Sprintf("[%s] %v", sessions[i], p), nil)
				}
			}()
			c16Run(r, sessions[i], false)
			r.Add("evaluations", 1)
		})
	}
	if r.Tier == "thorough" {
		r.SetDeadline(45 * 60 * 1e9)
	} else {
		r.SetDeadline(300 * 1e9)
	}
	methods := []string{ovsdb.MonitorRPC, ovsdb.ConditionalMonitorRPC, ovsdb.ConditionalMonitorSinceRPC, ovsdb.ConditionalMonitorSinceRPC + "+ids"}
	aways := []int{0, 7}
	if r.Tier == "thorough" {
		aways = []int{0, 1, 2, 3, 4, 5, 6, 7}
	}
	boundaries := map[string]int{}
	for _, m := range methods {
		for nm := 1; nm <= 2; nm++ {
			// the fault-free session gives the message boundaries
			base := c16Session{Method: m, Monitors: nm, Cut: -1, Cut2: -1}
			sr := ev.New("C16-record", r.Tier, "fault_enumeration")
			msgs := c16Run(sr, base, true)
			n := 0
			for _, x := range msgs {
				if x.Conn == 0 {
					n++
				}
			}
			boundaries[fmt.Sprintf("%s/%d", m, nm)] = n
			if sr.Violations() > 0 {
				r.Violation("c16.fault-free-session."+m, fmt.Sprintf("the fault-free session fails for %s with %d monitors", m, nm), map[string]interface{}{"messages": summarize(msgs)})
			}
			if nm == 2 && m == ovsdb.ConditionalMonitorRPC {
				r.Sample(map[string]interface{}{"fault_free_session": base.String(), "messages": summarize(msgs)})
			}
			for _, aw := range aways {
				sessions = append(sessions, c16Session{Method: m, Monitors: nm, Away: aw, Cut: -1, Cut2: -1})
				for k := 0; k < n; k++ {
					sessions = append(sessions, c16Session{Method: m, Monitors: nm, Away: aw, Cut: k, Cut2: -1})
					if r.Tier == "thorough" {
						sessions = append(sessions, c16Session{Method: m, Monitors: nm, Away: aw, Cut: k, Cut2: -1, After: true})
					}
				}
			}
			// a transaction committed between the restarted monitor's reply and its application to the cache
			for k := 0; k < n; k++ {
				if r.Tier == "thorough" || k%3 == nm%3 {
					sessions = append(sessions, c16Session{Method: m, Monitors: nm, Away: 7, Cut: k, Cut2: -1, Late: true})
					// and a second cut soon after that reconnection, before any further notification has refreshed what the client
					// remembers of the server's transaction id
					if strings.HasSuffix(m, "+ids") || r.Tier == "thorough" {
						for k2 := 6 + 2*nm; k2 <= 10+2*nm; k2 += 2 {
							sessions = append(sessions, c16Session{Method: m, Monitors: nm, Away: 7, Cut: k, Cut2: k2, Late: true})
						}
					}
				}
			}
			// an outage longer than the client's reconnect timeout
			for k := 0; k < n; k++ {
				if r.Tier == "thorough" || k%4 == (nm+len(m))%4 {
					sessions = append(sessions, c16Session{Method: m, Monitors: nm, Away: 7, Cut: k, Cut2: -1, Outage: true})
				}
			}
			// silent peer: from message k on nothing reaches the client any more
			for k := 0; k < n; k++ {
				if r.Tier == "thorough" || k%2 == nm%2 {
					sessions = append(sessions, c16Session{Method: m, Monitors: nm, Away: 7, Cut: k, Cut2: -1, Silent: true})
				}
			}
			// double faults: second cut inside the reconnect handshake
			if r.Tier == "thorough" || (nm == 2 && m != ovsdb.MonitorRPC) || strings.HasSuffix(m, "+ids") {
				for k := 4; k < n; k += 3 {
					for k2 := 0; k2 < 6+2*nm; k2++ {
						sessions = append(sessions, c16Session{Method: m, Monitors: nm, Away: 7, Cut: k, Cut2: k2})
					}
				}
			}
		}
	}
	// leader-only client against two servers: leadership moves at every step boundary
	nLeader := 0
	for _, m := range methods[:3] {
		for nm := 1; nm <= 2; nm++ {
			for pos := 1; pos <= 6; pos++ {
				if pos == 3 && nm == 1 {
					continue
				}
				for order := 0; order < 2; order++ {
					if r.Tier != "thorough" && (pos+order+nm)%2 == 0 {
						continue
					}
					sessions = append(sessions, c16Session{Method: m, Monitors: nm, Away: order, Cut: -1, Cut2: -1, Leader: pos})
					nLeader++
					if r.Tier == "thorough" || pos == 2 {
						sessions = append(sessions, c16Session{Method: m, Monitors: nm, Away: order, Cut: -1, Cut2: 2, Leader: pos})
						nLeader++
					}
				}
			}
		}
	}
	r.Set("leader_sessions", nLeader)
	r.Set("cut_points", boundaries)
	r.Set("sessions", len(sessions))
	data := filepath.Join(os.TempDir(), fmt.Sprintf("vc-c16-%d.json", os.Getpid()))
	b, _ := json.Marshal(sessions)
	if err := os.WriteFile(data, b, 0o600); err != nil {
		panic(err)
	}
	defer os.Remove(data)
	workers.Parent(r, len(sessions), 25, data, 120*time.Second, func(c workers.Crash) {
		s := sessions[c.Session]
		msg, site := workers.PanicInfo(c.Stderr)
		kind := "crash"
		if c.Timeout {
			kind, msg, site = "hang", "session made no progress for 120s", "timeout"
		}
		r.Violation("c16."+kind+"."+site, fmt.Sprintf("[%s] the process running the session died: %s (at %s)", s, msg, site), map[string]interface{}{"session": s.String(), "stderr_tail": tailStr(c.Stderr, 3000)})
	})
	r.Set("distinct_nontrivial", r.DistinctCount("nontrivial"))
}

// c16OutageTimeout: reconnect timeout of the clients of the outage sessions
const c16OutageTimeout = 120 * time.Millisecond

// c16ReplyMatches: do the initial contents of a monitor reply (every row of the requested tables) equal a recorded state?
func c16ReplyMatches(ref *rm.Schema, contents ovsdb.TableUpdates2, st *rm.DB, tables []string) bool {
	for _, t := range tables {
		tab := ref.Tables[t]
		if tab == nil {
			return false
		}
		if len(contents[t]) != len(st.T[t]) {
			return false
		}
		for u, ru := range contents[t] {
			want, ok := st.T[t][u]
			if !ok || ru == nil || ru.Initial == nil {
				return false
			}
			got, err := sys.FromOvsRow(tab, *ru.Initial)
			if err != nil {
				return false
			}
			for cn, c := range tab.Cols {
				g, has := got[cn]
				if !has {
					g = c.Default()
				}
				w, hasW := want[cn]
				if !hasW {
					w = c.Default()
				}
				if !g.Equal(w) {
					return false
				}
			}
		}
	}
	return true
}
