package checks

// C12 — wire encoding round-trips every protocol value.

import (
	"encoding/json"
	"fmt"
	"math"
	"reflect"
	"sort"
	"strings"

	"github.com/ovn-org/libovsdb/ovsdb"

	"verif/mc/ev"
)

func init() { register("C12", "exploration", runC12) }

// canonJSON parses JSON and re-renders it with OVSDB sets and maps in sorted order.
func canonJSON(b []byte) (string, error) {
	var v interface{}
	if err := json.Unmarshal(b, &v); err != nil {
		return "", err
	}
	o, err := json.Marshal(canonNode(v))
	return string(o), err
}

func canonNode(v interface{}) interface{} {
	switch x := v.(type) {
	case []interface{}:
		out := make([]interface{}, len(x))
		for i, e := range x {
			out[i] = canonNode(e)
		}
		if len(out) == 2 {
			if tag, ok := out[0].(string); ok && (tag == "set" || tag == "map") {
				if inner, ok := out[1].([]interface{}); ok {
					keyed := make([]string, len(inner))
					for i, e := range inner {
						b, _ := json.Marshal(e)
						keyed[i] = string(b)
					}
					sort.Strings(keyed)
					sorted := make([]interface{}, len(inner))
					for i, k := range keyed {
						var e interface{}
						json.Unmarshal([]byte(k), &e)
						sorted[i] = e
					}
					out[1] = sorted
				}
			}
		}
		return out
	case map[string]interface{}:
		out := map[string]interface{}{}
		for k, e := range x {
			out[k] = canonNode(e)
		}
		return out
	}
	return v
}

type wireCase struct {
	class  string
	val    interface{}        // the value (not a pointer)
	newPtr func() interface{} // fresh pointer to decode into
	strict bool               // value is in wire-normal form: decode(encode(v)) must deep-equal v
}

var (
	vUUID  = ovsdb.UUID{GoUUID: "11111111-2222-3333-4444-555555555555"}
	vUUID2 = ovsdb.UUID{GoUUID: "11111111-2222-3333-4444-666666666666"}
	vNamed = ovsdb.UUID{GoUUID: "Row_Name9"} // names are case-sensitive
)

func wireAtoms() []interface{} {
	return []interface{}{float64(0), float64(1), float64(-2.5), float64(1e15), "", "s", "set", "uuid", true, false, vUUID, vNamed}
}

func wireSets() []ovsdb.OvsSet {
	return []ovsdb.OvsSet{
		{GoSet: []interface{}{}},
		{GoSet: []interface{}{"a", "b"}},
		{GoSet: []interface{}{float64(1), float64(2), float64(3)}},
		{GoSet: []interface{}{vUUID, vUUID2}},
		{GoSet: []interface{}{vNamed, vUUID}},
		{GoSet: []interface{}{true, false}},
	}
}

func wireMaps() []ovsdb.OvsMap {
	return []ovsdb.OvsMap{
		{GoMap: map[interface{}]interface{}{}},
		{GoMap: map[interface{}]interface{}{"k": "v"}},
		{GoMap: map[interface{}]interface{}{"k1": "v1", "k2": "v2"}},
		{GoMap: map[interface{}]interface{}{float64(1): "one", float64(2): "two"}},
		{GoMap: map[interface{}]interface{}{vUUID: "x"}},
		{GoMap: map[interface{}]interface{}{"k": vUUID, "l": vNamed}},
		{GoMap: map[interface{}]interface{}{vUUID: vUUID2}},
		{GoMap: map[interface{}]interface{}{"k": float64(7), "l": float64(-1)}},
		{GoMap: map[interface{}]interface{}{"k": true}},
		// sets nested inside maps (the decoder accepts any value notation in value position)
		{GoMap: map[interface{}]interface{}{"k": ovsdb.OvsSet{GoSet: []interface{}{vUUID, vUUID2}}}},
		{GoMap: map[interface{}]interface{}{"k": ovsdb.OvsSet{GoSet: []interface{}{vNamed, vUUID}}, "l": vUUID2}},
		{GoMap: map[interface{}]interface{}{"k": ovsdb.OvsSet{GoSet: []interface{}{"a", "b"}}}},
		{GoMap: map[interface{}]interface{}{"k": ovsdb.OvsSet{GoSet: []interface{}{}}}},
	}
}

// values as they appear inside rows, conditions and mutations (wire-normal)
func wireValues() []interface{} {
	var v []interface{}
	v = append(v, wireAtoms()...)
	for _, s := range wireSets() {
		v = append(v, s)
	}
	for _, m := range wireMaps() {
		v = append(v, m)
	}
	return v
}

func wireRows() []ovsdb.Row {
	vals := wireValues()
	rows := []ovsdb.Row{{}}
	for i, v := range vals {
		rows = append(rows, ovsdb.Row{"c": v})
		rows = append(rows, ovsdb.Row{"c": v, "d": vals[(i+5)%len(vals)], "_uuid": vUUID})
	}
	return rows
}

func bp(b bool) *bool { return &b }
func ip(i int) *int   { return &i }

func wireCases(level int) []wireCase {
	var cs []wireCase
	add := func(class string, val interface{}, strict bool) {
		t := reflect.TypeOf(val)
		cs = append(cs, wireCase{class, val, func() interface{} { return reflect.New(t).Interface() }, strict})
	}
	// UUIDs, sets, maps
	add("uuid", vUUID, true)
	add("uuid.named", vNamed, true)
	add("uuid.named", ovsdb.UUID{GoUUID: "row_name"}, true)
	add("uuid.upper-case-hex", ovsdb.UUID{GoUUID: "AAAAAAAA-2222-3333-4444-55555555555F"}, true)
	for _, s := range wireSets() {
		add("set", s, true)
	}
	for _, a := range wireAtoms() {
		add("set.single", ovsdb.OvsSet{GoSet: []interface{}{a}}, true)
	}
	for _, m := range wireMaps() {
		add("map", m, true)
	}
	// rows
	for _, r := range wireRows() {
		add("row", r, true)
	}
	// conditions and mutations
	for _, fn := range []ovsdb.ConditionFunction{"==", "!=", "<", "<=", ">", ">=", "includes", "excludes"} {
		for _, v := range wireValues() {
			add("condition", ovsdb.Condition{Column: "c", Function: fn, Value: v}, true)
		}
		add("condition", ovsdb.Condition{Column: "_uuid", Function: fn, Value: vUUID}, true)
	}
	for _, mu := range []ovsdb.Mutator{"+=", "-=", "*=", "/=", "%=", "insert", "delete"} {
		for _, v := range wireValues() {
			add("mutation", ovsdb.Mutation{Column: "c", Mutator: mu, Value: v}, true)
		}
	}
	// operations: every kind x presence pattern of its optional members
	conds := [][]ovsdb.Condition{nil, {{Column: "c", Function: "==", Value: "s"}}, {{Column: "c", Function: "includes", Value: wireSets()[1]}, {Column: "_uuid", Function: "==", Value: vUUID}}}
	muts := [][]ovsdb.Mutation{nil, {{Column: "c", Mutator: "+=", Value: float64(1)}}, {{Column: "c", Mutator: "insert", Value: wireSets()[3]}, {Column: "d", Mutator: "delete", Value: wireMaps()[1]}}}
	rows := []ovsdb.Row{nil, {"c": "s"}, {"c": wireSets()[1], "m": wireMaps()[5], "u": vNamed}}
	cols := [][]string{nil, {"c"}, {"c", "d"}}
	for _, kind := range []string{"insert", "select", "update", "mutate", "delete", "wait", "commit", "abort", "comment", "assert"} {
		for _, row := range rows {
			for _, where := range conds {
				for _, mut := range muts {
					for _, col := range cols {
						for mask := 0; mask < 64; mask++ {
							if level == 0 && mask%5 != 0 && mask != 63 {
								continue
							}
							op := ovsdb.Operation{Op: kind, Table: "T", Row: row, Where: where, Mutations: mut, Columns: col}
							if mask&1 != 0 {
								op.UUIDName = "nm"
							}
							if mask&2 != 0 {
								op.UUID = vUUID.GoUUID
							}
							if mask&4 != 0 {
								op.Timeout = ip(0)
								op.Until = "=="
								op.Rows = []ovsdb.Row{{"c": "s"}, {"c": wireSets()[1]}}
							}
							if mask&8 != 0 {
								op.Durable = bp(mask&1 != 0)
							}
							if mask&16 != 0 {
								s := "a comment"
								op.Comment = &s
							}
							if mask&32 != 0 {
								s := "lock"
								op.Lock = &s
								op.Timeout = ip(100)
							}
							if kind == "select" && where == nil {
								// a select always carries a where member: the decoded form is the empty list
								op.Where = []ovsdb.Condition{}
							}
							add("operation."+kind, op, true)
						}
					}
				}
			}
		}
	}
	add("operation.table-less", ovsdb.Operation{Op: "abort"}, true)
	// operation results
	for _, res := range []ovsdb.OperationResult{
		{}, {Count: 3}, {UUID: vUUID}, {Error: "constraint violation", Details: "some details"}, {Error: "timed out"},
		{Rows: []ovsdb.Row{{"c": "s"}, {"c": wireSets()[1], "_uuid": vUUID}}}, {Rows: []ovsdb.Row{}},
		{Error: "referential integrity violation", Details: "d"}, {Error: "resources exhausted"}, {Error: "I/O error"}, {Error: "duplicate uuid name"},
		{Error: "domain error"}, {Error: "range error"}, {Error: "not supported"}, {Error: "aborted"}, {Error: "not owner"},
	} {
		add("result", res, false)
	}
	// table updates, both formats, every presence pattern
	rowsP := []*ovsdb.Row{nil, {"c": "s"}, {"c": wireSets()[3], "m": wireMaps()[2]}}
	for _, n := range rowsP {
		for _, o := range rowsP {
			if n == nil && o == nil {
				continue
			}
			add("table-updates", ovsdb.TableUpdates{"T": {vUUID.GoUUID: &ovsdb.RowUpdate{New: n, Old: o}}, "U": {}}, true)
		}
	}
	for _, r := range rowsP[1:] {
		add("table-updates2", ovsdb.TableUpdates2{"T": {vUUID.GoUUID: &ovsdb.RowUpdate2{Initial: r}}}, true)
		add("table-updates2", ovsdb.TableUpdates2{"T": {vUUID.GoUUID: &ovsdb.RowUpdate2{Insert: r}, vUUID2.GoUUID: &ovsdb.RowUpdate2{Delete: &ovsdb.Row{}}}}, true)
		add("table-updates2", ovsdb.TableUpdates2{"T": {vUUID.GoUUID: &ovsdb.RowUpdate2{Modify: r}}, "U": {}}, true)
		add("monitor-cond-since-reply", ovsdb.MonitorCondSinceReply{Found: true, LastTransactionID: vUUID.GoUUID, Updates: ovsdb.TableUpdates2{"T": {vUUID.GoUUID: &ovsdb.RowUpdate2{Modify: r}}}}, true)
		add("monitor-cond-since-reply", ovsdb.MonitorCondSinceReply{Found: false, LastTransactionID: "00000000-0000-0000-0000-000000000000", Updates: ovsdb.TableUpdates2{"T": {vUUID.GoUUID: &ovsdb.RowUpdate2{Initial: r}}}}, true)
	}
	add("monitor-cond-since-reply", ovsdb.MonitorCondSinceReply{Found: false, LastTransactionID: "", Updates: ovsdb.TableUpdates2{}}, true)
	// monitor requests: columns x where x select (every presence pattern of the four flags)
	tri := []*bool{nil, bp(true), bp(false)}
	for _, col := range cols {
		for _, where := range conds {
			add("monitor-request", ovsdb.MonitorRequest{Columns: col, Where: where}, true)
			for a := 0; a < 81; a++ {
				if level == 0 && a%4 != 0 {
					continue
				}
				sel := mkSelect(tri[a%3], tri[a/3%3], tri[a/9%3], tri[a/27%3])
				add("monitor-request", ovsdb.MonitorRequest{Columns: col, Where: where, Select: sel}, false)
			}
		}
	}
	return cs
}

// mkSelect builds a MonitorSelect with the given presence pattern through its JSON form.
func mkSelect(initial, insert, del, modify *bool) *ovsdb.MonitorSelect {
	m := map[string]bool{}
	if initial != nil {
		m["initial"] = *initial
	}
	if insert != nil {
		m["insert"] = *insert
	}
	if del != nil {
		m["delete"] = *del
	}
	if modify != nil {
		m["modify"] = *modify
	}
	b, _ := json.Marshal(m)
	var s ovsdb.MonitorSelect
	if err := json.Unmarshal(b, &s); err != nil {
		panic(err)
	}
	return &s
}

// ---- schemas ----

type baseSpec struct {
	typ               string
	enum              []interface{}
	minI, maxI        *int
	minR, maxR        *float64
	minL, maxL        *int
	refTable, refType string
}

func (b baseSpec) json() string {
	var p []string
	p = append(p, fmt.Sprintf(`"type":%q`, b.typ))
	if len(b.enum) == 1 {
		e, _ := json.Marshal(b.enum[0])
		p = append(p, `"enum":`+string(e))
	} else if len(b.enum) > 1 {
		e, _ := json.Marshal(b.enum)
		p = append(p, `"enum":["set",`+string(e)+`]`)
	}
	addI := func(k string, v *int) {
		if v != nil {
			p = append(p, fmt.Sprintf(`%q:%d`, k, *v))
		}
	}
	addI("minInteger", b.minI)
	addI("maxInteger", b.maxI)
	addI("minLength", b.minL)
	addI("maxLength", b.maxL)
	if b.minR != nil {
		p = append(p, fmt.Sprintf(`"minReal":%v`, *b.minR))
	}
	if b.maxR != nil {
		p = append(p, fmt.Sprintf(`"maxReal":%v`, *b.maxR))
	}
	if b.refTable != "" {
		p = append(p, fmt.Sprintf(`"refTable":%q`, b.refTable))
	}
	if b.refType != "" {
		p = append(p, fmt.Sprintf(`"refType":%q`, b.refType))
	}
	return "{" + strings.Join(p, ",") + "}"
}

// what the accessors of a decoded base type must say
func (b baseSpec) expect() string {
	var p []string
	p = append(p, "type="+b.typ)
	p = append(p, fmt.Sprintf("enum=%v", canonEnum(b.enum)))
	switch b.typ {
	case "integer":
		mn, mx := int(math.Pow(-2, 63)), int(math.Pow(2, 63))-1
		if b.minI != nil {
			mn = *b.minI
		}
		if b.maxI != nil {
			mx = *b.maxI
		}
		p = append(p, fmt.Sprintf("int[%d,%d]", mn, mx))
	case "real":
		mn, mx := math.SmallestNonzeroFloat64, math.MaxFloat64
		if b.minR != nil {
			mn = *b.minR
		}
		if b.maxR != nil {
			mx = *b.maxR
		}
		p = append(p, fmt.Sprintf("real[%v,%v]", mn, mx))
	case "string":
		mn, mx := 0, int(math.Pow(2, 63))-1
		if b.minL != nil {
			mn = *b.minL
		}
		if b.maxL != nil {
			mx = *b.maxL
		}
		p = append(p, fmt.Sprintf("len[%d,%d]", mn, mx))
	case "uuid":
		rt := b.refType
		if rt == "" {
			rt = "strong"
		}
		p = append(p, fmt.Sprintf("ref=%s/%s", b.refTable, rt))
	}
	return strings.Join(p, " ")
}

func canonEnum(e []interface{}) string {
	var s []string
	for _, x := range e {
		b, _ := json.Marshal(x)
		s = append(s, string(b))
	}
	sort.Strings(s)
	return strings.Join(s, ",")
}

func observeBase(b *ovsdb.BaseType) string {
	if b == nil {
		return "<nil>"
	}
	var p []string
	p = append(p, "type="+b.Type)
	p = append(p, fmt.Sprintf("enum=%v", canonEnum(b.Enum)))
	switch b.Type {
	case "integer":
		mn, _ := b.MinInteger()
		mx, _ := b.MaxInteger()
		p = append(p, fmt.Sprintf("int[%d,%d]", mn, mx))
	case "real":
		mn, _ := b.MinReal()
		mx, _ := b.MaxReal()
		p = append(p, fmt.Sprintf("real[%v,%v]", mn, mx))
	case "string":
		mn, _ := b.MinLength()
		mx, _ := b.MaxLength()
		p = append(p, fmt.Sprintf("len[%d,%d]", mn, mx))
	case "uuid":
		rt, _ := b.RefTable()
		ty, _ := b.RefType()
		p = append(p, fmt.Sprintf("ref=%s/%s", rt, ty))
	}
	return strings.Join(p, " ")
}

func baseSpecs(level int) []baseSpec {
	var out []baseSpec
	fp := func(f float64) *float64 { return &f }
	for _, t := range []string{"integer", "real", "boolean", "string", "uuid"} {
		out = append(out, baseSpec{typ: t})
	}
	for mask := 1; mask < 4; mask++ {
		b := baseSpec{typ: "integer"}
		if mask&1 != 0 {
			b.minI = ip(-5)
		}
		if mask&2 != 0 {
			b.maxI = ip(4095)
		}
		out = append(out, b)
		r := baseSpec{typ: "real"}
		if mask&1 != 0 {
			r.minR = fp(-1.5)
		}
		if mask&2 != 0 {
			r.maxR = fp(99.25)
		}
		out = append(out, r)
		s := baseSpec{typ: "string"}
		if mask&1 != 0 {
			s.minL = ip(2)
		}
		if mask&2 != 0 {
			s.maxL = ip(64)
		}
		out = append(out, s)
	}
	// integer bounds that no float64 represents exactly, and the extremes
	for _, mm := range [][2]int{{-(1<<53 + 1), 1<<53 + 1}, {-(1<<62 + 1), 1<<62 + 1}, {math.MinInt64, math.MaxInt64}, {0, 4294967295}} {
		out = append(out, baseSpec{typ: "integer", minI: ip(mm[0]), maxI: ip(mm[1])})
	}
	out = append(out, baseSpec{typ: "string", enum: []interface{}{"one"}}, baseSpec{typ: "string", enum: []interface{}{"a", "b", "c"}},
		baseSpec{typ: "integer", enum: []interface{}{float64(1), float64(2)}}, baseSpec{typ: "real", enum: []interface{}{1.5, 2.5}}, baseSpec{typ: "boolean", enum: []interface{}{true}},
		baseSpec{typ: "string", enum: []interface{}{"a", "b"}, minL: ip(1), maxL: ip(8)},
		baseSpec{typ: "uuid", refTable: "Other"}, baseSpec{typ: "uuid", refTable: "Other", refType: "weak"}, baseSpec{typ: "uuid", refTable: "Other", refType: "strong"})
	return out
}

type colSpec struct {
	key       baseSpec
	value     *baseSpec
	min       *int
	max       string // "", "1", "3", "unlimited"
	ephemeral *bool
	mutable   *bool
}

func (c colSpec) json() string {
	var p []string
	simple := c.value == nil && c.min == nil && c.max == "" && c.key.json() == fmt.Sprintf(`{"type":%q}`, c.key.typ)
	if simple {
		p = append(p, fmt.Sprintf(`"type":%q`, c.key.typ))
	} else {
		var t []string
		t = append(t, `"key":`+c.key.json())
		if c.value != nil {
			t = append(t, `"value":`+c.value.json())
		}
		if c.min != nil {
			t = append(t, fmt.Sprintf(`"min":%d`, *c.min))
		}
		if c.max == "unlimited" {
			t = append(t, `"max":"unlimited"`)
		} else if c.max != "" {
			t = append(t, `"max":`+c.max)
		}
		p = append(p, `"type":{`+strings.Join(t, ",")+`}`)
	}
	if c.ephemeral != nil {
		p = append(p, fmt.Sprintf(`"ephemeral":%v`, *c.ephemeral))
	}
	if c.mutable != nil {
		p = append(p, fmt.Sprintf(`"mutable":%v`, *c.mutable))
	}
	return "{" + strings.Join(p, ",") + "}"
}

func (c colSpec) expect() string {
	mn, mx := 1, 1
	if c.min != nil {
		mn = *c.min
	}
	switch c.max {
	case "unlimited":
		mx = -1
	case "":
	default:
		fmt.Sscanf(c.max, "%d", &mx)
	}
	v := "<nil>"
	if c.value != nil {
		v = c.value.expect()
	}
	eph, mut := false, true
	if c.ephemeral != nil {
		eph = *c.ephemeral
	}
	if c.mutable != nil {
		mut = *c.mutable
	}
	return fmt.Sprintf("key{%s} value{%s} min=%d max=%d ephemeral=%v mutable=%v", c.key.expect(), v, mn, mx, eph, mut)
}

func observeCol(c *ovsdb.ColumnSchema) string {
	return fmt.Sprintf("key{%s} value{%s} min=%d max=%d ephemeral=%v mutable=%v", observeBase(c.TypeObj.Key), observeBase(c.TypeObj.Value), c.TypeObj.Min(), c.TypeObj.Max(), c.Ephemeral(), c.Mutable())
}

func colSpecs(level int) []colSpec {
	var out []colSpec
	bases := baseSpecs(level)
	for _, k := range bases {
		out = append(out, colSpec{key: k})
		out = append(out, colSpec{key: k, min: ip(0)})
		out = append(out, colSpec{key: k, min: ip(0), max: "unlimited"})
		out = append(out, colSpec{key: k, min: ip(1), max: "3"})
		out = append(out, colSpec{key: k, max: "1"})
		out = append(out, colSpec{key: k, ephemeral: bp(true)}, colSpec{key: k, mutable: bp(false)}, colSpec{key: k, ephemeral: bp(false), mutable: bp(true), min: ip(0), max: "unlimited"})
	}
	for i, k := range bases {
		for j, v := range bases {
			if level == 0 && (i+j)%3 != 0 {
				continue
			}
			vv := v
			out = append(out, colSpec{key: k, value: &vv, min: ip(0), max: "unlimited"})
			out = append(out, colSpec{key: k, value: &vv, min: ip(1), max: "1"})
		}
	}
	return out
}

func runC12(r *ev.Run) {
	level := 0
	if r.Tier == "thorough" {
		level = 1
	}
	r.SetDeadline(20 * 60 * 1e9)
	r.Set("rule", "case = one structurally generated wire value (operations of all ten kinds x presence patterns of optional members, conditions, mutations, sets, maps, UUIDs, rows, table updates in both formats, monitor requests with every select-flag presence pattern, monitor_cond_since replies, results and errors) or one schema column (every base-type feature present/absent x min/max/unlimited x map values x ephemeral/mutable); non-trivial = value with at least one optional member present or one nested collection")
	// operation results <-> Go errors: every error string of RFC 7047 5.? that has its own Go type maps to that type and back
	// to the same (error, details); any other error string keeps its name in front of its details
	known := []string{"referential integrity violation", "constraint violation", "resources exhausted", "I/O error", "duplicate uuid-name", "domain error", "range error", "timed out", "not supported", "aborted", "not owner"}
	for _, name := range append(append([]string{}, known...), "syntax error", "unknown database", "some error a newer server invented") {
		for _, details := range []string{"", "some details", "details: with a colon"} {
			r.Add("evaluations", 1)
			res := ovsdb.OperationResult{Error: name, Details: details}
			op := ovsdb.Operation{Op: "insert", Table: "T"}
			cse := map[string]interface{}{"class": "error-mapping", "result": res}
			isKnown := false
			for _, k := range known {
				isKnown = isKnown || k == name
			}
			for _, extra := range []bool{false, true} {
				var got error
				if extra {
					// the additional element of a commit-time failure
					_, err := ovsdb.CheckOperationResults([]ovsdb.OperationResult{{}, res}, []ovsdb.Operation{op})
					got = err
				} else {
					errs, _ := ovsdb.CheckOperationResults([]ovsdb.OperationResult{res}, []ovsdb.Operation{op})
					if len(errs) == 1 {
						got = errs[0]
					}
				}
				if got == nil {
					r.Violation("c12.error-mapping.lost", fmt.Sprintf("result %+v (extra element=%v) is not reported as an error", res, extra), cse)
					continue
				}
				back := ovsdb.ResultFromError(got)
				if isKnown {
					if back.Error != name || back.Details != details {
						r.Violation("c12.error-mapping.known", fmt.Sprintf("result %+v -> %T -> result {error:%q details:%q}", res, got, back.Error, back.Details), cse)
					}
				} else if msg := got.Error(); !strings.HasPrefix(msg, name) || !strings.Contains(msg[len(name):], details) || !strings.HasPrefix(back.Error, name) {
					r.Violation("c12.error-mapping.generic", fmt.Sprintf("result %+v -> %T reading %q -> result {error:%q details:%q}: the error name must come first, followed by the details", res, got, msg, back.Error, back.Details), cse)
				}
			}
		}
	}
	cases := wireCases(level)
	for i, c := range cases {
		r.Add("evaluations", 1)
		func() {
			cse := map[string]interface{}{"class": c.class, "value": fmt.Sprintf("%+v", c.val)}
			defer func() {
				if p := recover(); p != nil {
					r.Violation("c12.panic."+c.class, fmt.Sprintf("%s %+v: panic %v", c.class, c.val, p), cse)
				}
			}()
			b1, err := json.Marshal(c.val)
			if err != nil {
				r.Violation("c12.encode-error."+c.class, fmt.Sprintf("%s %+v: %v", c.class, c.val, err), cse)
				return
			}
			cse["json"] = string(b1)
			if i%97 == 0 {
				r.Sample(cse)
			}
			p := c.newPtr()
			if err := json.Unmarshal(b1, p); err != nil {
				r.Violation("c12.decode-error."+c.class, fmt.Sprintf("%s: own encoding %s does not decode: %v", c.class, b1, err), cse)
				return
			}
			got := reflect.ValueOf(p).Elem().Interface()
			b2, err := json.Marshal(got)
			if err != nil {
				r.Violation("c12.reencode-error."+c.class, fmt.Sprintf("%s: %v", c.class, err), cse)
				return
			}
			c1, _ := canonJSON(b1)
			c2, _ := canonJSON(b2)
			if c1 != c2 {
				r.Violation("c12.reencode-differs."+c.class, fmt.Sprintf("%s: %s decodes and re-encodes to %s", c.class, b1, b2), cse)
			}
			if c.strict && !reflect.DeepEqual(got, c.val) {
				r.Violation("c12.decode-differs."+c.class, fmt.Sprintf("%s: %+v encodes to %s which decodes to %+v", c.class, c.val, b1, got), cse)
			}
			if len(b1) > 40 {
				r.Distinct("nontrivial", c1)
			}
		}()
	}
	// schemas: every column spec as its own one-column table, plus whole-schema features
	cols := colSpecs(level)
	for i, c := range cols {
		r.Add("evaluations", 1)
		func() {
			cj := c.json()
			doc := fmt.Sprintf(`{"name":"S","version":"1.2.3","tables":{"T":{"columns":{"c":%s},"isRoot":true,"indexes":[["c"]]},"Other":{"columns":{"x":{"type":"string"}}}}}`, cj)
			cse := map[string]interface{}{"class": "schema", "column": cj}
			defer func() {
				if p := recover(); p != nil {
					r.Violation("c12.schema.panic", fmt.Sprintf("column %s: panic %v", cj, p), cse)
				}
			}()
			var s1 ovsdb.DatabaseSchema
			if err := json.Unmarshal([]byte(doc), &s1); err != nil {
				r.Violation("c12.schema.decode-error", fmt.Sprintf("column %s: %v", cj, err), cse)
				return
			}
			feature := schemaFeature(c)
			if got, want := observeCol(s1.Tables["T"].Columns["c"]), c.expect(); got != want {
				r.Violation("c12.schema.decoded-accessors."+feature, fmt.Sprintf("column %s decodes to %s, expected %s", cj, got, want), cse)
			}
			b1, err := json.Marshal(s1)
			if err != nil {
				r.Violation("c12.schema.encode-error."+feature, fmt.Sprintf("column %s: %v", cj, err), cse)
				return
			}
			var s2 ovsdb.DatabaseSchema
			if err := json.Unmarshal(b1, &s2); err != nil {
				r.Violation("c12.schema.redecode-error."+feature, fmt.Sprintf("column %s re-encodes to %s which does not decode: %v", cj, b1, err), cse)
				return
			}
			if got, want := observeCol(s2.Tables["T"].Columns["c"]), c.expect(); got != want {
				r.Violation("c12.schema.roundtrip-accessors."+feature, fmt.Sprintf("column %s after encode/decode is %s, expected %s (re-encoded as %s)", cj, got, want, b1), cse)
			}
			b2, _ := json.Marshal(s2)
			c1, _ := canonJSON(b1)
			c2, _ := canonJSON(b2)
			if c1 != c2 {
				r.Violation("c12.schema.reencode-differs."+feature, fmt.Sprintf("column %s: %s vs %s", cj, b1, b2), cse)
			}
			t1, t2 := s1.Tables["T"], s2.Tables["T"]
			if s2.Name != "S" || s2.Version != "1.2.3" || !t2.IsRoot || !reflect.DeepEqual(t1.Indexes, t2.Indexes) || len(t2.Indexes) != 1 || s2.Tables["Other"].IsRoot {
				r.Violation("c12.schema.table-features", fmt.Sprintf("name/version/isRoot/indexes lost: %s", b1), cse)
			}
			r.Distinct("nontrivial", cj)
			if i%61 == 0 {
				r.Sample(map[string]interface{}{"class": "schema-column", "json": cj, "accessors": c.expect()})
			}
		}()
	}
	r.Set("wire_values", len(cases))
	r.Set("schema_columns", len(cols))
	r.Set("distinct_nontrivial", r.DistinctCount("nontrivial"))
}

func schemaFeature(c colSpec) string {
	var f []string
	b := c.key
	if c.value != nil {
		f = append(f, "map")
	}
	if len(b.enum) > 0 {
		f = append(f, "enum")
	}
	if b.minI != nil || b.maxI != nil {
		f = append(f, "intrange")
	}
	if b.minR != nil || b.maxR != nil {
		f = append(f, "realrange")
	}
	if b.minL != nil {
		f = append(f, "minLength")
	}
	if b.maxL != nil {
		f = append(f, "maxLength")
	}
	if b.refTable != "" {
		f = append(f, "ref")
	}
	if len(f) == 0 {
		f = append(f, "plain")
	}
	return strings.Join(f, "+")
}
