package checks

// Ordered values: like refmodel.Value but a set keeps the order it is written in,
// because the implementation's slices do (C09, C10, C11, C13 quantify over element order).

import (
	"encoding/json"
	"fmt"
	"reflect"

	"github.com/ovn-org/libovsdb/model"
	"github.com/ovn-org/libovsdb/ovsdb"

	"verif/mc/canon"
	rm "verif/mc/refmodel"
	"verif/mc/schemas"
	"verif/mc/sys"
)

type ov struct {
	IsMap bool
	Set   []rm.Atom
	Map   map[rm.Atom]rm.Atom
}

func (v ov) canon() rm.Value {
	if v.IsMap {
		m := rm.MapOf()
		for k, x := range v.Map {
			m.Map[k] = x
		}
		return m
	}
	return rm.SetOf(v.Set...)
}

func (v ov) String() string {
	if v.IsMap {
		return v.canon().String()
	}
	s := "["
	for i, a := range v.Set {
		if i > 0 {
			s += ","
		}
		s += a.String()
	}
	return s + "]"
}

func atomNative(a rm.Atom) interface{} {
	switch a.K {
	case 'i':
		return int(a.I)
	case 'r':
		return a.R
	case 'b':
		return a.B
	}
	return a.S
}

// native builds the libovsdb native value of column c (Go type typ) from an ordered value.
func (v ov) native(c *rm.Col, typ reflect.Type) interface{} {
	switch typ.Kind() {
	case reflect.Map:
		m := reflect.MakeMap(typ)
		for k, x := range v.Map {
			m.SetMapIndex(reflect.ValueOf(atomNative(k)), reflect.ValueOf(atomNative(x)))
		}
		if len(v.Map) == 0 && v.Map == nil {
			return reflect.Zero(typ).Interface()
		}
		return m.Interface()
	case reflect.Slice:
		if v.Set == nil {
			return reflect.Zero(typ).Interface()
		}
		s := reflect.MakeSlice(typ, 0, len(v.Set))
		for _, a := range v.Set {
			s = reflect.Append(s, reflect.ValueOf(atomNative(a)))
		}
		return s.Interface()
	case reflect.Ptr:
		if len(v.Set) == 0 {
			return reflect.Zero(typ).Interface()
		}
		p := reflect.New(typ.Elem())
		p.Elem().Set(reflect.ValueOf(atomNative(v.Set[0])))
		return p.Interface()
	}
	return atomNative(v.Set[0])
}

// ovs renders the value in OVSDB notation keeping the element order.
func (v ov) ovs(c *rm.Col) interface{} {
	if v.IsMap {
		return sys.ToOvs(c, v.canon())
	}
	if c.Scalar() && len(v.Set) == 1 {
		return sys.ToOvs(c, v.canon())
	}
	s := make([]interface{}, 0, len(v.Set))
	for _, a := range v.Set {
		s = append(s, sys.ToOvs(&rm.Col{KeyT: c.KeyT, Min: 1, Max: 1}, rm.SetOf(a)))
	}
	return ovsdb.OvsSet{GoSet: s}
}

func typeAtoms(c *rm.Col, t string, n int) []rm.Atom {
	var a []rm.Atom
	if c != nil && len(c.Enum) > 0 && t == c.KeyT && !c.IsMap {
		a = c.Enum
		if n < len(a) {
			a = a[:n]
		}
		return a
	}
	switch t {
	case "integer":
		a = []rm.Atom{rm.I(0), rm.I(1), rm.I(2), rm.I(-7)}
	case "real":
		a = []rm.Atom{rm.R(0), rm.R(1.5), rm.R(-2), rm.R(1e10)}
	case "boolean":
		a = []rm.Atom{rm.B(false), rm.B(true)}
	case "uuid":
		a = []rm.Atom{rm.U(""), rm.U(x1), rm.U(x2), rm.U(x3)}
	default:
		if c != nil && len(c.Enum) > 0 && t == c.KeyT && !c.IsMap {
			a = c.Enum
		} else {
			a = []rm.Atom{rm.S(""), rm.S("a"), rm.S("b"), rm.S("c")}
		}
	}
	if n < len(a) {
		a = a[:n]
	}
	return a
}

// orderedUniverse enumerates values of column c: sets in every element order.
// nset = size of the element universe for sets, nkeys = keys for maps.
func orderedUniverse(c *rm.Col, nset, nkeys int) []ov {
	var out []ov
	switch {
	case c.IsMap:
		keys := typeAtoms(c, c.KeyT, 4)[1:]
		if c.KeyT == "boolean" {
			keys = typeAtoms(c, c.KeyT, 2)
		}
		if len(keys) > nkeys {
			keys = keys[:nkeys]
		}
		vals := typeAtoms(c, c.ValT, 3)
		if len(vals) > 2 {
			vals = append(vals[1:3:3], vals[0]) // v1, v2, default
		}
		var rec func(i int, cur map[rm.Atom]rm.Atom)
		rec = func(i int, cur map[rm.Atom]rm.Atom) {
			if i == len(keys) {
				m := map[rm.Atom]rm.Atom{}
				for k, x := range cur {
					m[k] = x
				}
				out = append(out, ov{IsMap: true, Map: m})
				return
			}
			rec(i+1, cur)
			for _, x := range vals {
				cur[keys[i]] = x
				rec(i+1, cur)
				delete(cur, keys[i])
			}
		}
		rec(0, map[rm.Atom]rm.Atom{})
		out = append(out, ov{IsMap: true, Map: nil}) // nil map
	case c.Scalar():
		for _, a := range typeAtoms(c, c.KeyT, 3) {
			out = append(out, ov{Set: []rm.Atom{a}})
		}
	case c.Max == 1:
		out = append(out, ov{Set: nil})
		for _, a := range typeAtoms(c, c.KeyT, 3) {
			out = append(out, ov{Set: []rm.Atom{a}}) // includes a pointer to the zero value
		}
	default:
		el := typeAtoms(c, c.KeyT, 4)
		if len(el) > nset {
			el = el[1 : nset+1]
		}
		out = append(out, ov{Set: nil}, ov{Set: []rm.Atom{}})
		var rec func(cur []rm.Atom, used []bool)
		rec = func(cur []rm.Atom, used []bool) {
			if len(cur) > 0 {
				out = append(out, ov{Set: append([]rm.Atom{}, cur...)})
			}
			for i, a := range el {
				if !used[i] {
					used[i] = true
					rec(append(cur, a), used)
					used[i] = false
				}
			}
		}
		rec(nil, make([]bool, len(el)))
	}
	return out
}

// snapshot renders a model exactly (element order, nil vs empty), to detect mutation of inputs.
func snapshot(m model.Model) string {
	if m == nil {
		return "<nil>"
	}
	v := reflect.ValueOf(m).Elem()
	s := ""
	for i := 0; i < v.NumField(); i++ {
		f := v.Field(i)
		switch f.Kind() {
		case reflect.Ptr:
			if f.IsNil() {
				s += fmt.Sprintf("%s=nilptr;", v.Type().Field(i).Name)
			} else {
				s += fmt.Sprintf("%s=&%#v;", v.Type().Field(i).Name, f.Elem().Interface())
			}
		case reflect.Map:
			if f.IsNil() {
				s += fmt.Sprintf("%s=nilmap;", v.Type().Field(i).Name)
			} else {
				b, _ := json.Marshal(mapToSorted(f))
				s += fmt.Sprintf("%s=%s;", v.Type().Field(i).Name, b)
			}
		default:
			s += fmt.Sprintf("%s=%#v;", v.Type().Field(i).Name, f.Interface())
		}
	}
	return s
}

func mapToSorted(f reflect.Value) map[string]string {
	o := map[string]string{}
	for it := f.MapRange(); it.Next(); {
		o[fmt.Sprintf("%#v", it.Key().Interface())] = fmt.Sprintf("%#v", it.Value().Interface())
	}
	return o
}

// jsonRoundTrip sends a value through its JSON encoding into dst.
func jsonRoundTrip(v interface{}, dst interface{}) error {
	b, err := json.Marshal(v)
	if err != nil {
		return err
	}
	return json.Unmarshal(b, dst)
}

// colValue reads a column of a model as a canonical value.
func colValue(c *rm.Col, m model.Model) rm.Value { return sys.FromNative(c, schemas.Get(m, c.Name)) }

// canonNativeStr: canonical rendering of a native value (see mc/canon).
func canonNativeStr(x interface{}) string { return canon.Native(x) }
