//go:build !vsched

package checks

import "verif/mc/ev"

// the cache part of C18 needs the scheduler build (run.sh runs C18 with it)
func c18CacheN(tier string) int { return 0 }

func c18CacheRun(r *ev.Run, i int) {}
