package checks

// C18 — client and cache are safe and live under concurrent use.

import (
	"context"
	"encoding/json"
	"fmt"
	"os"
	"path/filepath"
	"reflect"
	"runtime"
	"sort"
	"strings"
	"sync"
	"sync/atomic"
	"time"

	"github.com/cenkalti/backoff/v4"
	"github.com/ovn-org/libovsdb/client"
	"github.com/ovn-org/libovsdb/model"
	"github.com/ovn-org/libovsdb/ovsdb"

	"verif/mc/e2e"
	"verif/mc/ev"
	rm "verif/mc/refmodel"
	"verif/mc/schemas"
	"verif/mc/sys"
	"verif/mc/workers"
)

func init() { register("C18", "model_checking", runC18) }

type c18State struct {
	dbs            *schemas.DB
	ref            *rm.Schema
	env            *e2e.Env
	px             *e2e.Proxy
	c              client.Client
	pz             *e2e.Pauser
	cookies        []client.MonitorCookie
	mu             sync.Mutex
	everConnected  bool
	used           map[string]bool // tables taken by monitors
	n              int64
	corrupt        int32 // notifications still to corrupt
	txnSeq         int64 // transaction ids handed out in update3 notifications
	silentToProbes bool  // the proxy swallows the client's inactivity probes (echo requests carrying "libovsdb echo")
	echoSwallow    int32 // echo requests still to swallow
	echoCut        int32 // echo requests still to answer by hanging up
}

const c18CallTimeout = 1500 * time.Millisecond

// every call is run in its own goroutine and must return within the watchdog
type c18Call struct {
	name string
	done chan string // result summary
}

var c18Events = []string{
	"connect", "disconnect", "close", "monitor-ok", "monitor-unknown-table", "monitor-empty", "monitor-option-error", "monitor-rejected", "monitor-unknown-method", "monitor-fallback",
	"monitor-all", "monitor-second", "cancel-ok", "cancel-unknown", "transact-ok", "transact-invalid", "transact-error-result", "echo", "get-hit", "get-miss", "list", "where-list", "create-op", "where-update-op", "where-delete-op",
	"update-endpoints-same", "update-endpoints-other", "cut", "notification", "bad-notification", "bad-notification-x2", "schema", "connected",
	// a request that is never answered (the call ends when its context does) and a request on which the peer hangs up
	"echo-noreply", "echo-cutreply", "transact-noreply", "transact-cutreply", "monitor-noreply", "monitor-cutreply",
}

const c18ShortTimeout = 300 * time.Millisecond // context of the calls that are never answered

func (s *c18State) ctx() (context.Context, context.CancelFunc) {
	return context.WithTimeout(context.Background(), c18CallTimeout)
}

// run executes one API call synchronously and returns a short result
func (s *c18State) run(ev string) string {
	str := func(x string) rm.Value { return rm.SetOf(rm.S(x)) }
	errs := func(err error) string {
		if err == nil {
			return "ok"
		}
		e := err.Error()
		if len(e) > 60 {
			e = e[:60]
		}
		return "err:" + e
	}
	mon := func(tables ...string) *client.Monitor {
		m := s.c.NewMonitor()
		for _, t := range tables {
			m.Tables = append(m.Tables, client.TableMonitor{Table: t})
		}
		return m
	}
	switch ev {
	case "connect":
		ctx, cancel := s.ctx()
		defer cancel()
		err := s.c.Connect(ctx)
		if err == nil {
			s.mu.Lock()
			s.everConnected = true
			s.mu.Unlock()
		}
		return errs(err)
	case "disconnect":
		s.c.Disconnect()
		return "ok"
	case "close":
		s.c.Close()
		return "ok"
	case "monitor-ok", "monitor-second", "monitor-rejected", "monitor-unknown-method", "monitor-fallback", "monitor-all":
		ctx, cancel := s.ctx()
		defer cancel()
		// two monitors of one client must not name the same table (the cache cannot hold a row twice: the client
		// would reconnect for ever): a monitor that can succeed takes tables no earlier one has taken
		var tables []string
		s.mu.Lock()
		switch ev {
		case "monitor-rejected":
			tables = []string{"RW"}
		case "monitor-unknown-method":
			tables = []string{"R2"}
		case "monitor-fallback":
			if !s.used["N3"] && !s.used["*"] {
				tables, s.used["N3"] = []string{"N3"}, true
			}
		case "monitor-all":
			if len(s.used) == 0 {
				s.used["*"] = true
			} else {
				ev = "monitor-ok"
			}
		}
		if ev == "monitor-ok" || ev == "monitor-second" {
			for _, g := range [][]string{{"N1", "N2"}, {"R"}} {
				if !s.used[g[0]] && !s.used["*"] {
					tables, s.used[g[0]] = g, true
					break
				}
			}
		}
		s.mu.Unlock()
		var ck client.MonitorCookie
		var err error
		switch {
		case ev == "monitor-all":
			ck, err = s.c.MonitorAll(ctx)
		case tables == nil:
			return "skipped:every-table-is-monitored"
		default:
			ck, err = s.c.Monitor(ctx, mon(tables...))
		}
		if err == nil {
			s.mu.Lock()
			s.cookies = append(s.cookies, ck)
			s.mu.Unlock()
		}
		return errs(err)
	case "monitor-unknown-table":
		ctx, cancel := s.ctx()
		defer cancel()
		_, err := s.c.Monitor(ctx, mon("NoSuchTable"))
		return errs(err)
	case "monitor-empty":
		ctx, cancel := s.ctx()
		defer cancel()
		_, err := s.c.Monitor(ctx, mon())
		return errs(err)
	case "monitor-option-error":
		ctx, cancel := s.ctx()
		defer cancel()
		m := mon("N1")
		m.Errors = append(m.Errors, fmt.Errorf("option error"))
		_, err := s.c.Monitor(ctx, m)
		return errs(err)
	case "cancel-ok":
		ctx, cancel := s.ctx()
		defer cancel()
		ck := client.MonitorCookie{DatabaseName: "REF", ID: "none"}
		s.mu.Lock()
		if len(s.cookies) > 0 {
			ck = s.cookies[len(s.cookies)-1]
		}
		s.mu.Unlock()
		return errs(s.c.MonitorCancel(ctx, ck))
	case "cancel-unknown":
		ctx, cancel := s.ctx()
		defer cancel()
		return errs(s.c.MonitorCancel(ctx, client.MonitorCookie{DatabaseName: "REF", ID: "unknown"}))
	case "transact-ok":
		ctx, cancel := s.ctx()
		defer cancel()
		_, err := s.c.Transact(ctx, sys.ToOvsOp(s.ref, rm.Op{Op: "insert", Table: "PR", Row: rm.Row{"name": str(fmt.Sprintf("t%d", atomic.AddInt64(&s.n, 1)))}}))
		return errs(err)
	case "transact-invalid":
		ctx, cancel := s.ctx()
		defer cancel()
		_, err := s.c.Transact(ctx, ovsdb.Operation{Op: "insert", Table: "NoSuchTable", Row: ovsdb.Row{"x": 1}})
		return errs(err)
	case "transact-error-result":
		ctx, cancel := s.ctx()
		defer cancel()
		res, err := s.c.Transact(ctx, ovsdb.Operation{Op: "abort", Table: "R"})
		if err == nil && len(res) > 0 && res[0].Error != "" {
			return "ok:error-result"
		}
		return errs(err)
	case "echo":
		ctx, cancel := s.ctx()
		defer cancel()
		return errs(s.c.Echo(ctx))
	case "echo-noreply", "echo-cutreply":
		ctx, cancel := context.WithTimeout(context.Background(), c18ShortTimeout)
		defer cancel()
		if !s.c.Connected() {
			return errs(s.c.Echo(ctx))
		}
		arm := &s.echoSwallow
		if ev == "echo-cutreply" {
			arm = &s.echoCut
		}
		atomic.StoreInt32(arm, 1)
		defer atomic.StoreInt32(arm, 0)
		return errs(s.c.Echo(ctx))
	case "transact-noreply", "transact-cutreply":
		// the proxy recognises the request by the row name
		ctx, cancel := context.WithTimeout(context.Background(), c18ShortTimeout)
		defer cancel()
		marker := "swallow-this-request"
		if ev == "transact-cutreply" {
			marker = "hang-up-on-this-request"
		}
		_, err := s.c.Transact(ctx, sys.ToOvsOp(s.ref, rm.Op{Op: "insert", Table: "PR", Row: rm.Row{"name": str(fmt.Sprintf("%s-%d", marker, atomic.AddInt64(&s.n, 1)))}}))
		return errs(err)
	case "monitor-noreply", "monitor-cutreply":
		// the proxy recognises the request by its table (PR, which no other monitor of a session names) and method
		ctx, cancel := context.WithTimeout(context.Background(), c18ShortTimeout)
		defer cancel()
		m := mon("PR")
		if ev == "monitor-cutreply" {
			m.Method = ovsdb.ConditionalMonitorRPC
		}
		_, err := s.c.Monitor(ctx, m)
		return errs(err)
	case "get-hit", "get-miss":
		ctx, cancel := s.ctx()
		defer cancel()
		m := s.dbs.NewModel("N1")
		u := uN1[0]
		if ev == "get-miss" {
			u = uu("a", 9)
		}
		schemas.Set(m, "_uuid", u)
		if !s.connectedOnce() {
			return "never-connected" // the model API does not exist before the first Connect (documented precondition)
		}
		return errs(s.c.Get(ctx, m))
	case "list":
		ctx, cancel := s.ctx()
		defer cancel()
		if !s.connectedOnce() {
			return "never-connected" // the model API does not exist before the first Connect (documented precondition)
		}
		lst := reflect.New(reflect.SliceOf(s.dbs.Types["N1"]))
		return errs(s.c.List(ctx, lst.Interface()))
	case "where-list":
		ctx, cancel := s.ctx()
		defer cancel()
		if !s.connectedOnce() {
			return "never-connected" // the model API does not exist before the first Connect (documented precondition)
		}
		m := s.dbs.NewModel("N1")
		schemas.Set(m, "_uuid", uN1[0])
		lst := reflect.New(reflect.SliceOf(s.dbs.Types["N1"]))
		return errs(s.c.Where(m).List(ctx, lst.Interface()))
	case "create-op", "where-update-op", "where-delete-op":
		// the operation builders work on the cache's database model, locally
		if !s.connectedOnce() {
			return "never-connected"
		}
		m := s.dbs.NewModel("N1")
		schemas.Set(m, "_uuid", uN1[0])
		schemas.Set(m, "name", "built")
		var err error
		switch ev {
		case "create-op":
			_, err = s.c.Create(m)
		case "where-update-op":
			_, err = s.c.Where(m).Update(m)
		default:
			_, err = s.c.Where(m).Delete()
		}
		return errs(err)
	case "update-endpoints-same":
		s.c.UpdateEndpoints([]string{"unix:" + s.px.Sock})
		return "ok"
	case "update-endpoints-other":
		s.c.UpdateEndpoints([]string{"unix:" + s.px.Sock + ".nope", "unix:" + s.px.Sock})
		return "ok"
	case "cut":
		s.px.CutAll()
		return "ok"
	case "notification":
		_, err := s.env.Sys.TransactRef([]rm.Op{opUpdate("N1", uN1[0], rm.Row{"name": str(fmt.Sprintf("n%d", atomic.AddInt64(&s.n, 1)))})})
		return errs(err)
	case "bad-notification", "bad-notification-x2":
		// the next notification(s) name a row the cache does not have: the cache refuses them (inconsistent),
		// which the client answers by disconnecting (and reconnecting, if so configured)
		k := 1
		if ev == "bad-notification-x2" {
			k = 2
		}
		atomic.AddInt32(&s.corrupt, int32(k))
		var err error
		for i := 0; i < k && err == nil; i++ {
			_, err = s.env.Sys.TransactRef([]rm.Op{opUpdate("N1", uN1[0], rm.Row{"name": str(fmt.Sprintf("b%d", atomic.AddInt64(&s.n, 1)))})})
		}
		return errs(err)
	case "schema":
		_ = s.c.Schema()
		return "ok"
	case "pause-300ms":
		time.Sleep(300 * time.Millisecond)
		return "ok"
	case "connected":
		return fmt.Sprint(s.c.Connected())
	}
	panic("unknown event " + ev)
}

func (s *c18State) connectedOnce() bool {
	s.mu.Lock()
	defer s.mu.Unlock()
	return s.everConnected
}

// apiUsable: events that touch the client without a cache being there would nil-deref by design
// (Get/List before Connect panic in the client): those are kept out when there is no cache.

func newC18State(reconnect bool, probe ...int) *c18State {
	dbs := srefDB(false)
	s := &c18State{dbs: dbs, ref: rm.FromOvsdb(dbs.Schema), used: map[string]bool{}}
	s.env = e2e.Start(dbs)
	s.px = s.env.WithProxy()
	str := func(x string) rm.Value { return rm.SetOf(rm.S(x)) }
	setup := []rm.Op{opInsert("N1", uN1[0], rm.Row{"name": str("a1")}), opInsert("R", uR[0], rm.Row{"name": str("r1"), "sset": uset(uN1[0])})}
	if res, err := s.env.Sys.TransactRef(setup); err != nil || len(res) != 2 {
		panic(fmt.Sprint("setup", res, err))
	}
	s.px.Rewrite = func(m e2e.Msg) json.RawMessage {
		// the in-memory server does not implement monitor_cancel: the proxy answers for it
		if m.Dir == "c2s" && m.Method == "monitor_cancel" && strings.Contains(string(m.Raw), "unknown") {
			return nil
		}
		if m.Dir == "c2s" && m.Method == "monitor_cancel" {
			return json.RawMessage(fmt.Sprintf(`{"id":%s,"method":"echo","params":[]}`, m.ID))
		}
		if m.Dir == "s2c" && m.IsResp {
			for _, q := range s.px.Messages() {
				if q.Conn == m.Conn && q.Dir == "c2s" && q.ID == m.ID && q.Method == "monitor_cancel" && !strings.Contains(string(q.Raw), "unknown") {
					return json.RawMessage(fmt.Sprintf(`{"id":%s,"result":{},"error":null}`, m.ID))
				}
			}
		}
		if m.Dir == "s2c" && strings.HasPrefix(m.Method, "update") {
			raw := string(m.Raw)
			changed := false
			if strings.Contains(raw, uN1[0]) {
				if atomic.AddInt32(&s.corrupt, -1) >= 0 {
					raw, changed = strings.ReplaceAll(raw, uN1[0], uu("a", 7)), true
				} else {
					atomic.AddInt32(&s.corrupt, 1)
				}
			}
			// an ovsdb-server notifies a monitor_cond_since monitor with update3 (the in-tree server always sends update2)
			if m.Method == "update2" {
				var n struct {
					Params []json.RawMessage `json:"params"`
				}
				if json.Unmarshal([]byte(raw), &n) == nil && len(n.Params) == 2 {
					since := false
					for _, q := range s.px.Messages() {
						if q.Dir == "c2s" && q.Method == "monitor_cond_since" && strings.Contains(string(q.Raw), string(n.Params[0])) {
							since = true
						}
					}
					if since {
						id := fmt.Sprintf("dddddddd-0000-0000-0000-%012d", atomic.AddInt64(&s.txnSeq, 1))
						b, _ := json.Marshal(map[string]interface{}{"id": json.RawMessage(m.ID), "method": "update3", "params": []interface{}{n.Params[0], id, n.Params[1]}})
						return b
					}
				}
			}
			if changed {
				return json.RawMessage(raw)
			}
		}
		// what happens to a monitor request is decided by the table it names (no shared flag between overlapping calls):
		// RW: the server answers with an error; R2: every monitor method is unknown; N3: only monitor_cond_since is unknown
		mode := func(q e2e.Msg) string {
			if q.Dir != "c2s" || !strings.HasPrefix(q.Method, "monitor") || q.Method == "monitor_cancel" {
				return ""
			}
			switch {
			case strings.Contains(string(q.Raw), `"RW":`):
				return "error"
			case strings.Contains(string(q.Raw), `"R2":`):
				return "unknown-method"
			case strings.Contains(string(q.Raw), `"N3":`) && q.Method == "monitor_cond_since":
				return "unknown-method"
			}
			return ""
		}
		if m.Dir == "c2s" {
			if mode(m) != "" {
				// the server must not set the monitor up: it gets a harmless request with the same id instead
				return json.RawMessage(fmt.Sprintf(`{"id":%s,"method":"echo","params":[]}`, m.ID))
			}
			return nil
		}
		if !m.IsResp {
			return nil
		}
		for _, q := range s.px.Messages() {
			if q.Conn == m.Conn && q.Dir == "c2s" && q.ID == m.ID {
				switch mode(q) {
				case "error":
					return json.RawMessage(fmt.Sprintf(`{"id":%s,"result":null,"error":"some server error"}`, m.ID))
				case "unknown-method":
					return json.RawMessage(fmt.Sprintf(`{"id":%s,"result":null,"error":"unknown method"}`, m.ID))
				}
			}
		}
		return nil
	}
	s.px.Decide = func(m e2e.Msg) e2e.Decision {
		if m.Dir != "c2s" {
			return e2e.Forward
		}
		raw := string(m.Raw)
		switch {
		case m.Method == "echo" && s.silentToProbes && strings.Contains(raw, "libovsdb echo"):
			return e2e.Swallow
		case m.Method == "echo" && atomic.CompareAndSwapInt32(&s.echoSwallow, 1, 0):
			return e2e.Swallow
		case m.Method == "echo" && atomic.CompareAndSwapInt32(&s.echoCut, 1, 0):
			return e2e.CutBefore
		case m.Method == "transact" && strings.Contains(raw, "swallow-this-request"):
			return e2e.Swallow
		case m.Method == "transact" && strings.Contains(raw, "hang-up-on-this-request"):
			return e2e.CutBefore
		case strings.HasPrefix(m.Method, "monitor") && m.Method != "monitor_cancel" && strings.Contains(raw, `"PR":`):
			// a monitor that names PR is only ever sent by the two events below; when a reconnecting client sends it again
			// it is treated the same way (it was never registered: the first request failed)
			if m.Method == "monitor_cond" {
				return e2e.CutBefore
			}
			return e2e.Swallow
		}
		return e2e.Forward
	}
	if len(probe) > 0 && probe[0] > 0 {
		interval := time.Hour
		if probe[0] == 2 {
			interval = 100 * time.Millisecond
			s.silentToProbes = true
		}
		s.c = e2e.NewClient(dbs, s.px.Sock, client.WithInactivityCheck(interval, time.Second, backoff.NewConstantBackOff(time.Millisecond)))
	} else if reconnect {
		s.c = e2e.NewClient(dbs, s.px.Sock, client.WithReconnect(time.Second, backoff.NewConstantBackOff(time.Millisecond)))
	} else {
		s.c = e2e.NewClient(dbs, s.px.Sock)
	}
	s.pz = e2e.NewPauser(s.c)
	return s
}

func (s *c18State) close() {
	s.pz.Detach(s.c)
	// Close is a no-op while a reconnect is in progress (the client would go on dialling for ever):
	// let the reconnect finish first, with the server still there
	s.settle()
	done := make(chan struct{})
	go func() { s.c.Close(); close(done) }()
	select {
	case <-done:
	case <-time.After(2 * time.Second):
	}
	s.env.Close()
}

// start runs an event in a goroutine
func (s *c18State) start(evn string) *c18Call {
	c := &c18Call{name: evn, done: make(chan string, 1)}
	t0 := time.Now()
	go func() {
		if os.Getenv("VERIF_C18_TRACE") != "" {
			defer func() { fmt.Fprintf(ev.Err, "  %-26s %6.0fms\n", evn, time.Since(t0).Seconds()*1000) }()
		}
		defer func() {
			if p := recover(); p != nil {
				c.done <- fmt.Sprintf("PANIC: %v", p)
			}
		}()
		c.done <- s.run(evn)
	}()
	return c
}

func clientGoroutines() []string {
	buf := make([]byte, 4<<20)
	buf = buf[:runtime.Stack(buf, true)]
	var out []string
	for _, g := range strings.Split(string(buf), "\n\n") {
		idle := strings.HasPrefix(g, "goroutine") && (strings.Contains(g, "[chan receive") || strings.Contains(g, "[select")) &&
			(strings.Contains(g, "handleDisconnectNotification") || strings.Contains(g, "handleClientErrors") || strings.Contains(g, "handleInactivityProbes"))
		if strings.Contains(g, "libovsdb/client.") && !idle {
			var keep []string
			for _, l := range strings.Split(g, "\n") {
				if strings.HasPrefix(l, "goroutine") || strings.Contains(l, "libovsdb/") || strings.HasPrefix(l, "sync.") {
					keep = append(keep, strings.TrimSpace(l))
				}
			}
			out = append(out, strings.Join(keep, " <- "))
		}
	}
	return out
}

// blockedSite extracts where a stuck call is waiting (first client frame of the first goroutine blocked in sync), for the signature
func blockedSite(gs []string, call string) string {
	for _, g := range gs {
		if !strings.Contains(g, "[sync.") && !strings.Contains(g, "[semacquire") {
			continue
		}
		for _, part := range strings.Split(g, " <- ") {
			const pre = "github.com/ovn-org/libovsdb/client.(*ovsdbClient)."
			if strings.HasPrefix(part, pre) {
				f := part[len(pre):]
				if j := strings.Index(f, "("); j > 0 {
					f = f[:j]
				}
				return f
			}
		}
	}
	return "unknown"
}

// probe: no lock may be held when nothing is in flight
func (s *c18State) probeLocks() []string {
	var held []string
	for i := 0; i < 200; i++ {
		held = client.VerifLockProbe(s.c)
		if len(held) == 0 {
			return nil
		}
		time.Sleep(5 * time.Millisecond)
	}
	return held
}

func (s *c18State) monitorCount() int { return client.VerifMonitorCount(s.c) }

// probeGate: with nothing in flight, a connected client that has a monitor must not hold updates back
func (s *c18State) probeGate() (bool, int) {
	q := 0
	for i := 0; i < 200; i++ {
		var d bool
		d, q = client.VerifDeferState(s.c)
		if !d || !s.c.Connected() || s.monitorCount() == 0 {
			return false, 0
		}
		time.Sleep(5 * time.Millisecond)
	}
	return true, q
}

// settle waits until the client's background activity triggered by the last event (reconnect after a lost
// connection, disconnect after a cache error) has died down: no new proxy message or connection for a few
// milliseconds and no connect in progress. It only fixes which ordering a sequence explores (the other
// orderings are the pairs pinned at pause points); it is not an oracle.
func (s *c18State) settle() {
	last, lastChange := -1, time.Now()
	for i := 0; i < 1500; i++ {
		n := len(s.px.Messages())*16 + s.px.Conns()
		if n != last {
			last, lastChange = n, time.Now()
		} else if time.Since(lastChange) > 12*time.Millisecond {
			break
		}
		time.Sleep(2 * time.Millisecond)
	}
	done := make(chan struct{})
	go func() { _ = s.c.CurrentEndpoint(); close(done) }() // returns once no connect holds the rpc lock
	select {
	case <-done:
	case <-time.After(2 * time.Second):
	}
}

type c18Session struct {
	Kind  string   // "seq" or "pair"
	Seq   []string // seq: events in order; pair: [prefix..., X, Y]
	Point string   // pair: pause point at which X is parked
	NPre  int      // pair: number of prefix events
	Rec   bool     // client created with WithReconnect
	Nth   int      // lockpair: which occurrence of the point
	Probe int      // client created with WithInactivityCheck: 1 = probes never due (interval of an hour), 2 = an interval of 100 ms and a peer that never answers the probes
}

func (x c18Session) String() string {
	if x.Probe > 0 {
		y := x
		y.Probe = 0
		return map[int]string{1: "(client with inactivity check, probes never due) ", 2: "(client with inactivity check every 100 ms, peer silent to its probes) "}[x.Probe] + y.String()
	}
	if x.Rec {
		y := x
		y.Rec = false
		return "(reconnecting client) " + y.String()
	}
	if x.Kind == "cache" {
		return fmt.Sprintf("cache scenario %d under the scheduler", x.NPre)
	}
	if x.Kind == "race" {
		return fmt.Sprintf("%v ; %s || %s started together, free-running under the race detector", x.Seq[:x.NPre], x.Seq[x.NPre], x.Seq[x.NPre+1])
	}
	if x.Kind == "points" {
		return fmt.Sprintf("%v ; [%s parked at each of its synchronisation points] || %s", x.Seq[:x.NPre], x.Seq[x.NPre], x.Seq[x.NPre+1])
	}
	if x.Kind == "lockpair" {
		return fmt.Sprintf("%v ; [%s parked before %s (occurrence %d)] || %s", x.Seq[:x.NPre], x.Seq[x.NPre], x.Point, x.Nth, x.Seq[x.NPre+1])
	}
	if x.Kind == "pair" {
		return fmt.Sprintf("%v ; [%s parked at %s] || %s", x.Seq[:x.NPre], x.Seq[x.NPre], x.Point, x.Seq[x.NPre+1])
	}
	return strings.Join(x.Seq, " ; ")
}

// c18Points: discovery run of prefix ; X recording the synchronisation points reached (by X's goroutine or by the
// client's background goroutines X sets in motion), then one run per point with X parked there and Y started meanwhile.
func c18Points(r *ev.Run, x c18Session) {
	X := x.Seq[x.NPre]
	s := newC18State(x.Rec, x.Probe)
	for _, e := range x.Seq[:x.NPre] {
		select {
		case <-s.start(e).done:
		case <-time.After(6 * time.Second):
		}
		s.settle()
	}
	stop := e2e.ThePoints().Record()
	select {
	case <-s.start(X).done:
	case <-time.After(6 * time.Second):
	}
	s.settle()
	seq := stop()
	s.close()
	if len(seq) > 40 {
		seq = seq[:40]
		r.Add("point_sequences_capped_at_40", 1)
	}
	count := map[string]int{}
	for _, pt := range seq {
		count[pt]++
		y := x
		y.Kind, y.Point, y.Nth = "lockpair", pt, count[pt]
		r.Add("lockpairs", 1)
		r.Distinct("points_used", pt)
		c18Run(r, y)
	}
}

func c18Run(r *ev.Run, x c18Session) (sawError bool) {
	s := newC18State(x.Rec, x.Probe)
	defer s.close()
	cse := func(msg string, gs []string) interface{} {
		return map[string]interface{}{"session": x.String(), "msg": msg, "client_goroutines": gs}
	}
	wait := func(c *c18Call, d time.Duration) (string, bool) {
		select {
		case res := <-c.done:
			return res, true
		case <-time.After(d):
			return "", false
		}
	}
	watchdog := 15 * time.Second // generous: a loaded machine must not turn a slow call into an alarm
	check := func(name, res string) bool {
		if strings.HasPrefix(res, "err:") && !strings.HasPrefix(name, "followup-") {
			sawError = true
		}
		if strings.HasPrefix(res, "PANIC") {
			r.Violation("c18.panic."+name, fmt.Sprintf("[%s] %s: %s", x, name, res), cse(res, nil))
			return false
		}
		return true
	}
	stuck := func(call string) {
		gs := clientGoroutines()
		r.Violation("c18.call-never-returns."+call+".at-"+blockedSite(gs, call), fmt.Sprintf("[%s] %s did not return within %v (its context expired after %v): %s", x, call, watchdog, c18CallTimeout, strings.Join(gs, " || ")), cse("stuck: "+call, gs))
	}
	if x.Kind == "points" {
		c18Points(r, x)
		return
	}
	if x.Kind == "seq" {
		for _, e := range x.Seq {
			res, ok := wait(s.start(e), watchdog)
			if !ok {
				stuck(e)
				return
			}
			if !check(e, res) {
				return
			}
			r.Distinct("outcomes", e+"="+res)
			s.settle()
		}
	} else {
		for _, e := range x.Seq[:x.NPre] {
			res, ok := wait(s.start(e), watchdog)
			if !ok {
				stuck(e)
				return
			}
			if !check(e, res) {
				return
			}
			s.settle()
		}
		X, Y := x.Seq[x.NPre], x.Seq[x.NPre+1]
		var arrived <-chan struct{}
		release := func() { s.pz.Release(x.Point) }
		if x.Kind == "lockpair" {
			arrived = e2e.ThePoints().Hold(x.Point, x.Nth)
			release = e2e.ThePoints().Release
			defer release()
		} else {
			arrived = s.pz.Hold(x.Point)
		}
		cx := s.start(X)
		// X is parked when its goroutine (or, for a notification, the client's handler goroutine) reaches the point
		select {
		case <-arrived:
			r.Add("pairs_parked", 1)
		case <-time.After(c18CallTimeout + time.Second):
			// the point was not reached (X failed before it): nothing to overlap, the pair degenerates to a sequence
			r.Add("pairs_point_not_reached", 1)
			r.Distinct("pairs_point_not_reached", X+"@"+x.Point+" after "+strings.Join(x.Seq[:x.NPre], ","))
			if x.Kind == "lockpair" {
				return // a point seen in the discovery run that this run does not reach (background goroutines): nothing to overlap
			}
		}
		cy := s.start(Y)
		// give Y the chance to queue behind X (not an oracle)
		hold := 150 * time.Millisecond
		if Y == "pause-300ms" {
			hold = 400 * time.Millisecond // X stays parked while the client's own timers run
		}
		resY, yDone := wait(cy, hold)
		release()
		resX, ok := wait(cx, watchdog)
		if !ok {
			stuck(X + "-overlapped-by-" + Y)
			return
		}
		if !yDone {
			resY, ok = wait(cy, watchdog)
			if !ok {
				stuck(Y + "-overlapping-" + X)
				return
			}
		}
		if !check(X, resX) || !check(Y, resY) {
			return
		}
		r.Distinct("outcomes", X+"="+resX+"||"+Y+"="+resY)
		s.settle()
	}
	// nothing is in flight: no lock may be held
	if held := s.probeLocks(); len(held) > 0 {
		gs := clientGoroutines()
		r.Violation("c18.lock-left-held."+strings.Join(held, "+")+".after-"+x.Seq[len(x.Seq)-1], fmt.Sprintf("[%s] with no call in flight these locks cannot be taken: %v", x, held), cse("locks held "+strings.Join(held, ","), gs))
		return
	}
	// ... and reads must not be gated: connected, a monitor in place, no request in flight, yet updates held back means that
	// Get/List wait for their whole context (for ever without a deadline) and that notifications are never applied
	if gated, q := s.probeGate(); gated {
		r.Violation("c18.reads-gated-with-nothing-in-flight.after-"+x.Seq[len(x.Seq)-1], fmt.Sprintf("[%s] with no call in flight, the client connected and %d monitor(s) registered, updates are still held back (deferUpdates=true, %d queued): Get and List wait until their context expires and notifications are never applied", x, s.monitorCount(), q), cse("reads gated", nil))
		return
	}
	// and one more call of every kind completes
	followups := []string{"connected", "schema", "echo", "transact-ok", "monitor-ok", "notification", "cancel-ok", "notification", "cancel-unknown", "update-endpoints-same", "disconnect", "connect", "monitor-second", "notification", "get-hit", "list", "close"}
	if x.Kind == "lockpair" {
		followups = []string{"echo", "transact-ok", "monitor-ok", "disconnect", "connect", "notification", "get-hit", "close"}
	}
	for _, e := range followups {
		res, ok := wait(s.start(e), watchdog)
		if !ok {
			stuck("followup-" + e)
			return
		}
		if !check("followup-"+e, res) {
			return
		}
		s.settle()
	}
	r.Add("sessions_completed", 1)
	r.Distinct("connections_per_session", fmt.Sprint(s.px.Conns()))
	if os.Getenv("VERIF_C18_TRACE") != "" {
		fmt.Fprintf(ev.Err, "  connections made: %d\n", s.px.Conns())
	}
	return
}

func runC18(r *ev.Run) {
	depth := 2
	if r.Tier == "thorough" {
		depth = 3
		r.SetDeadline(50 * 60 * 1e9)
	} else {
		r.SetDeadline(400 * 1e9)
	}
	r.Set("rule", "session = sequence of API calls and environment events on a real client behind a message proxy (calls failing in each way they can: unknown table, no table, option error, server error reply, unknown-method fall-back, invalid operation, error result, unknown cookie, not connected, connection cut), or a pair of overlapping calls with the first one parked at a pause point; every call must return within a watchdog after its context expired; afterwards, with nothing in flight, no client lock may be held and a further call of every kind must complete; non-trivial = session in which at least one call returned an error")
	r.Assume("interleavings are pinned at the three hooked pause points (after the monitor reply, before a notification handler takes the cache lock, after the transact reply); finer interleavings inside the client are looked for by the race-detector pass only")
	var sessions []c18Session
	defer e2e.Cleanup()
	if workers.IsWorker() {
		b, err := os.ReadFile(os.Getenv("VERIF_WORKER_DATA"))
		if err != nil {
			panic(err)
		}
		if err := json.Unmarshal(b, &sessions); err != nil {
			panic(err)
		}
		workers.Child(r, func(i int) {
			if sessions[i].Kind == "cache" {
				c18CacheRun(r, sessions[i].NPre)
				return
			}
			if sessions[i].Kind == "race" {
				c18Race(r, sessions[i])
				return
			}
			t0 := time.Now()
			defer func() {
				if d := time.Since(t0); d > time.Second && os.Getenv("VERIF_C18_SLOW") != "" {
					if f, err := os.OpenFile(os.Getenv("VERIF_C18_SLOW"), os.O_APPEND|os.O_CREATE|os.O_WRONLY, 0o644); err == nil {
						fmt.Fprintf(f, "slow: %.1fs %s\n", d.Seconds(), sessions[i])
						f.Close()
					}
				}
			}()
			if c18Run(r, sessions[i]) {
				r.Distinct("nontrivial", sessions[i].String())
			}
			r.Add("evaluations", 1)
			r.Add("transitions", int64(len(sessions[i].Seq)))
			r.Distinct("states", sessions[i].String())
		})
	}
	if one := os.Getenv("VERIF_C18_ONE"); one != "" {
		var x c18Session
		if err := json.Unmarshal([]byte(one), &x); err != nil {
			panic(err)
		}
		if x.Kind == "cache" {
			c18CacheRun(r, x.NPre)
			return
		}
		if x.Kind == "race" {
			c18Race(r, x)
			return
		}
		c18Run(r, x)
		return
	}
	// sequences: "connect" first (the API is not usable before), then every sequence of the given depth
	evs := c18Events
	var rec func(seq []string)
	rec = func(seq []string) {
		if len(seq) > 0 {
			sessions = append(sessions, c18Session{Kind: "seq", Seq: append([]string{"connect"}, seq...)})
		}
		if len(seq) == depth {
			return
		}
		for _, e := range evs {
			if e == "connect" && len(seq) == 0 {
				continue
			}
			rec(append(append([]string{}, seq...), e))
		}
	}
	rec(nil)
	// also without connecting first
	for _, e := range []string{"disconnect", "close", "echo", "transact-ok", "monitor-ok", "cancel-unknown", "update-endpoints-other", "connected", "schema"} {
		sessions = append(sessions, c18Session{Kind: "seq", Seq: []string{e, "connect", e}})
	}
	// overlapping pairs
	type px struct{ call, point string }
	parked := []px{{"monitor-ok", "monitor:reply"}, {"monitor-second", "monitor:reply"}, {"monitor-unknown-method", "monitor:reply"}, {"monitor-rejected", "monitor:reply"}, {"transact-ok", "transact:post-rpc"}, {"notification", "update:pre-lock"}}
	parked = append(parked, px{"cut", "disconnect:notified"}, px{"disconnect", "disconnect:notified"}, px{"cut", "connect:locked"}, px{"disconnect", "connect:locked"}, px{"connect", "connect:locked"})
	for _, pre := range [][]string{{"connect"}, {"connect", "monitor-ok"}, {"connect", "disconnect"}} {
		for _, p := range parked {
			if p.call == "notification" && len(pre) == 1 {
				continue // no monitor: no notification is sent
			}
			if (p.call == "connect") != (len(pre) == 2 && pre[1] == "disconnect") {
				continue // Connect reaches its pause point with the lock held only when not connected; the other calls need a connection
			}
			for _, y := range evs {
				if y == "connect" {
					continue
				}
				sessions = append(sessions, c18Session{Kind: "pair", Seq: append(append([]string{}, pre...), p.call, y), Point: p.point, NPre: len(pre)})
			}
		}
	}
	// clients with the inactivity check: a Transact that has its reply and is about to tell the prober about the traffic, while
	// the connection goes away, the prober gives the peer up, or other calls arrive
	for _, probe := range []int{1, 2} {
		for _, pre := range [][]string{{"connect"}, {"connect", "monitor-ok"}} {
			for _, y := range []string{"cut", "disconnect", "close", "pause-300ms", "transact-ok", "echo", "notification", "get-hit"} {
				sessions = append(sessions, c18Session{Kind: "pair", Seq: append(append([]string{}, pre...), "transact-ok", y), Point: "transact:post-rpc", NPre: len(pre), Probe: probe})
			}
		}
	}
	// every call parked before each of its blocking synchronisation operations (announced by the overlay build), any call meanwhile
	if e2e.PointsAvailable() {
		xs := []string{"monitor-second", "transact-ok", "notification", "bad-notification", "cut", "echo-noreply", "transact-noreply"}
		ys := []string{"disconnect", "close", "monitor-second", "bad-notification-x2", "notification", "get-hit", "transact-ok", "cut"}
		pres := [][]string{{"connect", "monitor-ok"}}
		if r.Tier == "thorough" {
			xs = []string{"monitor-ok", "monitor-second", "monitor-fallback", "monitor-rejected", "monitor-unknown-method", "monitor-all", "transact-ok", "notification", "bad-notification", "cut", "disconnect", "close", "cancel-ok", "get-hit", "list", "echo", "update-endpoints-same", "update-endpoints-other", "echo-noreply", "echo-cutreply", "transact-noreply", "transact-cutreply", "monitor-noreply", "monitor-cutreply"}
			ys = nil
			for _, y := range evs {
				if y != "connect" {
					ys = append(ys, y)
				}
			}
			pres = append(pres, []string{"connect"})
		}
		for _, pre := range pres {
			for _, xx := range xs {
				for _, y := range ys {
					sessions = append(sessions, c18Session{Kind: "points", Seq: append(append([]string{}, pre...), xx, y), NPre: len(pre)})
				}
				// a Connect issued while the client is still tidying up after the connection it lost
				if xx == "cut" || xx == "disconnect" || xx == "close" {
					sessions = append(sessions, c18Session{Kind: "points", Seq: append(append([]string{}, pre...), xx, "connect"), NPre: len(pre)})
				}
			}
		}
	} else {
		r.Note("synchronisation-point pairs skipped: binary built without the overlay")
	}
	n0 := len(sessions)
	for i := 0; i < n0; i++ {
		y := sessions[i]
		y.Rec = true
		sessions = append(sessions, y)
	}
	// a client without the reconnect option does not connect again by itself
	kept := sessions[:0]
	for _, y := range sessions {
		if y.Kind == "pair" && !y.Rec && y.Point == "connect:locked" && y.Seq[y.NPre] != "connect" {
			continue
		}
		kept = append(kept, y)
	}
	sessions = kept
	// the real cache under the controlled scheduler (readers || updater || dispatcher || Purge): one entry per scenario
	nc := c18CacheN(r.Tier)
	if nc == 0 {
		r.Note("cache part skipped: binary built without the scheduler shim")
		r.Exhaustive = false
	}
	r.Set("cache_scenarios", nc)
	sort.SliceStable(sessions, func(i, j int) bool { return len(sessions[i].Seq) < len(sessions[j].Seq) })
	if os.Getenv("VERIF_C18_ONLY") == "cache" {
		sessions = nil
	}
	if os.Getenv("VERIF_C18_ONLY") == "race" {
		sessions, nc = sessions[:1], 0
	}
	// the long entries (one per cache scenario, one per synchronisation-point enumeration) are spread evenly over the
	// chunks handed to the worker processes
	var light, heavy []c18Session
	for i := 0; i < nc; i++ {
		heavy = append(heavy, c18Session{Kind: "cache", NPre: i})
	}
	for _, y := range sessions {
		if y.Kind == "points" {
			heavy = append(heavy, y)
		} else {
			light = append(light, y)
		}
	}
	chunk := 40
	if len(light) == 0 {
		chunk = 1
	}
	sessions = nil
	stride := 1
	if len(heavy) > 0 && len(light)/len(heavy) > 1 {
		stride = len(light) / len(heavy)
	}
	for i, y := range light {
		if i%stride == 0 && len(heavy) > 0 {
			sessions = append(sessions, heavy[0])
			heavy = heavy[1:]
		}
		sessions = append(sessions, y)
	}
	sessions = append(sessions, heavy...)
	r.Set("sessions", len(sessions))
	r.Set("alphabet_size", len(evs))
	if len(sessions) > 3 {
		r.Sample(map[string]interface{}{"sequence": sessions[len(sessions)/2].String(), "pair": sessions[len(sessions)-3].String()})
	}
	data := filepath.Join(os.TempDir(), fmt.Sprintf("vc-c18-%d.json", os.Getpid()))
	b, _ := json.Marshal(sessions)
	if err := os.WriteFile(data, b, 0o600); err != nil {
		panic(err)
	}
	defer os.Remove(data)
	workers.Parent(r, len(sessions), chunk, data, 300*time.Second, func(c workers.Crash) {
		x := sessions[c.Session]
		msg, site := workers.PanicInfo(c.Stderr)
		kind := "crash"
		if c.Timeout {
			kind, msg, site = "hang", "session made no progress for 300s", "timeout"
		}
		r.Violation("c18."+kind+"."+site, fmt.Sprintf("[%s] the process running the session died: %s (at %s)", x, msg, site), map[string]interface{}{"session": x.String(), "stderr_tail": tailStr(c.Stderr, 3000)})
	})
	// auxiliary pass (not model checking: free-running, so that the race detector sees accesses no hand-off orders):
	// the same calls, in unordered pairs started together, in a -race build of this program
	if bin := os.Getenv("VERIF_RACE_BIN"); bin != "" && os.Getenv("VERIF_C18_ONLY") != "cache" {
		var rs []c18Session
		pres := [][]string{{"connect", "monitor-ok"}}
		if r.Tier == "thorough" {
			pres = append(pres, []string{"connect"}, []string{"connect", "monitor-ok", "cut"})
		}
		for _, pre := range pres {
			for i, a := range evs {
				for _, b := range evs[i:] {
					for _, rec := range []bool{false, true} {
						rs = append(rs, c18Session{Kind: "race", Seq: append(append([]string{}, pre...), a, b), NPre: len(pre), Rec: rec})
					}
				}
			}
		}
		b, _ := json.Marshal(rs)
		if err := os.WriteFile(data, b, 0o600); err != nil {
			panic(err)
		}
		logDir, err := os.MkdirTemp("", "vc-c18-race")
		if err != nil {
			panic(err)
		}
		defer os.RemoveAll(logDir)
		workers.Binary = bin
		workers.ExtraEnv = []string{"GORACE=halt_on_error=0 exitcode=0 log_path=" + filepath.Join(logDir, "r"), "VERIF_RACE_LOG=" + filepath.Join(logDir, "r")}
		workers.Parent(r, len(rs), 30, data, 300*time.Second, func(c workers.Crash) {
			x := rs[c.Session]
			msg, site := workers.PanicInfo(c.Stderr)
			kind := "crash"
			if c.Timeout {
				kind, msg, site = "hang", "session made no progress for 300s", "timeout"
			}
			r.Violation("c18.race-pass."+kind+"."+site, fmt.Sprintf("[%s] the process running the session died: %s (at %s)", x, msg, site), map[string]interface{}{"session": x.String(), "stderr_tail": tailStr(c.Stderr, 3000)})
		})
		workers.Binary, workers.ExtraEnv = "", nil
		r.Set("race_pass_sessions", len(rs))
	} else {
		r.Note("race-detector pass not run (no -race build available)")
	}
	r.Set("states", r.DistinctCount("states"))
	r.Set("traces_validated_against_impl", r.Get("evaluations"))
	r.Set("distinct_nontrivial", r.DistinctCount("nontrivial"))
	r.Set("max_depth", depth+1)
	if os.Getenv("VERIF_C18_OUTCOMES") != "" {
		for _, k := range r.DistinctKeys("outcomes") {
			fmt.Fprintln(ev.Err, "outcome:", k)
		}
	}
	_ = model.Clone
}

// ---- auxiliary race-detector pass ----

var c18RaceOff int64

// c18Race runs prefix, then X and Y started together with notifications flowing, free-running; data races reported
// by the runtime while the session ran are turned into violations.
func c18Race(r *ev.Run, x c18Session) {
	s := newC18State(x.Rec, x.Probe)
	for _, e := range x.Seq[:x.NPre] {
		select {
		case <-s.start(e).done:
		case <-time.After(8 * time.Second):
		}
		s.settle()
	}
	stop := make(chan struct{})
	var bg sync.WaitGroup
	bg.Add(1)
	go func() {
		defer bg.Done()
		for i := 0; i < 40; i++ {
			select {
			case <-stop:
				return
			default:
			}
			_, _ = s.env.Sys.TransactRef([]rm.Op{opUpdate("N1", uN1[0], rm.Row{"name": rm.SetOf(rm.S(fmt.Sprintf("bg%d", i)))})})
			time.Sleep(300 * time.Microsecond)
		}
	}()
	// and a goroutine that keeps using the local API (cache reads, operation builders, state getters)
	bg.Add(1)
	go func() {
		defer bg.Done()
		defer func() { _ = recover() }()
		local := []string{"create-op", "get-hit", "connected", "where-update-op", "list", "schema", "where-list", "where-delete-op"}
		for i := 0; i < 400; i++ {
			select {
			case <-stop:
				return
			default:
			}
			s.run(local[i%len(local)])
			time.Sleep(100 * time.Microsecond)
		}
	}()
	barrier := make(chan struct{})
	res := make(chan string, 2)
	for _, e := range x.Seq[x.NPre:] {
		e := e
		go func() {
			defer func() {
				if p := recover(); p != nil {
					res <- fmt.Sprintf("PANIC: %v", p)
				}
			}()
			<-barrier
			res <- s.run(e)
		}()
	}
	close(barrier)
	for range x.Seq[x.NPre:] {
		select {
		case out := <-res:
			if strings.HasPrefix(out, "PANIC") {
				r.Violation("c18.race-pass.panic", fmt.Sprintf("[%s] %s", x, out), map[string]interface{}{"session": x.String()})
			}
		case <-time.After(20 * time.Second):
			gs := clientGoroutines()
			r.Violation("c18.race-pass.call-never-returns.at-"+blockedSite(gs, ""), fmt.Sprintf("[%s] a call did not return within 20s: %s", x, strings.Join(gs, " || ")), map[string]interface{}{"session": x.String(), "client_goroutines": gs})
		}
	}
	s.settle() // the background goroutines go on while a reconnect set off by X or Y completes
	close(stop)
	bg.Wait()
	for _, e := range []string{"get-hit", "list", "echo", "notification"} {
		select {
		case <-s.start(e).done:
		case <-time.After(8 * time.Second):
		}
	}
	s.settle()
	s.close()
	r.Add("race_pass_evaluations", 1)
	// what the race detector wrote while this session ran
	path := fmt.Sprintf("%s.%d", os.Getenv("VERIF_RACE_LOG"), os.Getpid())
	b, err := os.ReadFile(path)
	if err != nil || int64(len(b)) <= c18RaceOff {
		return
	}
	text := string(b[c18RaceOff:])
	c18RaceOff = int64(len(b))
	for _, rep := range strings.Split(text, "==================") {
		if !strings.Contains(rep, "DATA RACE") {
			continue
		}
		sig, harness := raceSig(rep)
		if strings.Contains(rep, "jsonrpc.(*jsonCodec).WriteRequest") && (strings.Contains(rep, "jsonrpc.(*jsonCodec).WriteResponse") || strings.Contains(rep, "rpc2.(*Client).handleRequest")) {
			// cenkalti/rpc2's JSON codec shares one json.Encoder (and the connection's error values) between the request
			// writer and the response writer without a lock: a race inside the dependency, between two of its own
			// goroutines, not between libovsdb accesses. Counted and described in DESIGN.md; not a C18 violation.
			r.Add("race_reports_inside_rpc2_codec", 1)
			continue
		}
		if harness {
			r.Add("race_reports_in_harness_only", 1)
			r.Note("race between harness goroutines only: " + sig)
			continue
		}
		r.Violation("c18.data-race."+sig, fmt.Sprintf("[%s] the race detector reports: %s", x, sig), map[string]interface{}{"session": x.String(), "report": rep})
	}
}

// raceSig names a race report by the first libovsdb frame of each of the two accesses.
func raceSig(rep string) (sig string, harnessOnly bool) {
	var sites []string
	lines := strings.Split(rep, "\n")
	for i := 0; i < len(lines); i++ {
		l := strings.TrimSpace(lines[i])
		if !(strings.Contains(l, " by goroutine ") || strings.Contains(l, " by main goroutine")) || !(strings.HasPrefix(l, "Read at") || strings.HasPrefix(l, "Write at") || strings.HasPrefix(l, "Previous ")) {
			continue
		}
		site, first := "", ""
		for j := i + 1; j < len(lines) && strings.TrimSpace(lines[j]) != ""; j += 2 {
			fn := strings.TrimSpace(lines[j])
			if k := strings.LastIndex(fn, "("); k > 0 {
				fn = fn[:k]
			}
			file := ""
			if j+1 < len(lines) {
				file = strings.TrimSpace(lines[j+1])
			}
			if first == "" {
				first = fn
			}
			if strings.Contains(fn, "ovn-org/libovsdb/") && !strings.Contains(file, "verif_") {
				site = strings.TrimPrefix(fn, "github.com/ovn-org/libovsdb/")
				break
			}
		}
		if site == "" {
			site = "outside:" + first
		}
		sites = append(sites, site)
	}
	sort.Strings(sites)
	harnessOnly = true
	for _, s := range sites {
		if !strings.HasPrefix(s, "outside:") {
			harnessOnly = false
		}
	}
	return strings.Join(sites, "~"), harnessOnly
}
