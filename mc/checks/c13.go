package checks

// C13 — cached models are isolated copies; Clone and Equal keep their contract.

import (
	"context"
	"fmt"
	"reflect"
	"runtime/debug"
	"sort"
	"strings"
	"sync"

	"github.com/go-logr/logr"
	"github.com/ovn-org/libovsdb/cache"
	"github.com/ovn-org/libovsdb/client"
	"github.com/ovn-org/libovsdb/model"
	"github.com/ovn-org/libovsdb/ovsdb"
	"github.com/ovn-org/libovsdb/ovsdb/serverdb"

	"verif/mc/canon"
	"verif/mc/ev"
	rm "verif/mc/refmodel"
	"verif/mc/schemas"
	"verif/mc/sys"
)

func init() { register("C13", "exploration", runC13) }

// mutateAll performs every mutation a caller can perform on a model; returns the list of mutation names.
func mutateAll(m model.Model) []string {
	var done []string
	v := reflect.ValueOf(m).Elem()
	for i := 0; i < v.NumField(); i++ {
		f := v.Field(i)
		name := v.Type().Field(i).Name
		if v.Type().Field(i).Tag.Get("ovsdb") == "_uuid" || !f.CanSet() {
			continue
		}
		switch f.Kind() {
		case reflect.String:
			f.SetString(f.String() + "-mutated")
			done = append(done, name+":overwrite-scalar")
		case reflect.Int:
			f.SetInt(f.Int() + 1000)
			done = append(done, name+":overwrite-scalar")
		case reflect.Float64:
			f.SetFloat(f.Float() + 1000)
			done = append(done, name+":overwrite-scalar")
		case reflect.Bool:
			f.SetBool(!f.Bool())
			done = append(done, name+":overwrite-scalar")
		case reflect.Ptr:
			if !f.IsNil() {
				mutateScalar(f.Elem())
				done = append(done, name+":write-through-pointer")
			}
		case reflect.Slice:
			if f.Len() > 0 {
				mutateScalar(f.Index(0))
				done = append(done, name+":overwrite-element")
				// append within capacity writes into the shared backing array, if any
				f.Set(reflect.Append(f.Slice(0, f.Len()-1), f.Index(0)))
				done = append(done, name+":append-within-capacity")
			}
			f.Set(reflect.Append(f, reflect.Zero(f.Type().Elem())))
			done = append(done, name+":append")
		case reflect.Map:
			if !f.IsNil() {
				for _, k := range f.MapKeys() {
					e := reflect.New(f.Type().Elem()).Elem()
					e.Set(f.MapIndex(k))
					mutateScalar(e)
					f.SetMapIndex(k, e)
					done = append(done, name+":overwrite-map-entry")
					break
				}
				nk := reflect.New(f.Type().Key()).Elem()
				mutateScalar(nk)
				f.SetMapIndex(nk, reflect.Zero(f.Type().Elem()))
				done = append(done, name+":insert-map-entry")
				ks := f.MapKeys()
				sort.Slice(ks, func(a, b int) bool { return fmt.Sprint(ks[a]) < fmt.Sprint(ks[b]) })
				if len(ks) > 2 {
					f.SetMapIndex(ks[len(ks)-1], reflect.Value{})
					done = append(done, name+":delete-map-entry")
				}
			}
		}
	}
	return done
}

func mutateScalar(e reflect.Value) {
	switch e.Kind() {
	case reflect.String:
		e.SetString(e.String() + "-mutated")
	case reflect.Int:
		e.SetInt(e.Int() + 1000)
	case reflect.Float64:
		e.SetFloat(e.Float() + 1000)
	case reflect.Bool:
		e.SetBool(!e.Bool())
	}
}

// diffFields lists the fields in which two models differ.
func diffFields(a, b model.Model) []string {
	var out []string
	va, vb := reflect.ValueOf(a).Elem(), reflect.ValueOf(b).Elem()
	for i := 0; i < va.NumField(); i++ {
		if canon.Native(va.Field(i).Interface()) != canon.Native(vb.Field(i).Interface()) {
			out = append(out, va.Type().Field(i).Name)
		}
	}
	return out
}

type isoEnv struct {
	kind   string
	dbm    model.DatabaseModel
	table  string
	typ    reflect.Type // *struct
	rich   func(uuid string, variant int) model.Model
	conds  func(uuid string) map[string][]ovsdb.Condition
	fieldP func(m model.Model) (interface{}, interface{}) // pointer to an indexed/identifying field and its value for WhereAll
	// indexField: a Go field covered by an index (schema index if indexSchema, else client index); look-ups by a model that
	// carries only this field go through the index instead of the _uuid
	indexField  string
	indexSchema bool
}

type recHandler struct {
	mu     sync.Mutex
	events []struct {
		kind     string
		old, new model.Model
	}
}

func (h *recHandler) OnAdd(table string, m model.Model) {
	h.mu.Lock()
	h.events = append(h.events, struct {
		kind     string
		old, new model.Model
	}{"add", nil, m})
	h.mu.Unlock()
}
func (h *recHandler) OnUpdate(table string, old, new model.Model) {
	h.mu.Lock()
	h.events = append(h.events, struct {
		kind     string
		old, new model.Model
	}{"update", old, new})
	h.mu.Unlock()
}
func (h *recHandler) OnDelete(table string, m model.Model) {
	h.mu.Lock()
	h.events = append(h.events, struct {
		kind     string
		old, new model.Model
	}{"delete", m, nil})
	h.mu.Unlock()
}

// readers: every read path returning the row uuid
func (e *isoEnv) readers(tc *cache.TableCache, uuid string) map[string]func() model.Model {
	t := tc.Table(e.table)
	api := client.VerifNewAPI(tc)
	probe := func() model.Model {
		p := reflect.New(e.typ.Elem()).Interface()
		reflect.ValueOf(p).Elem().FieldByName("UUID").SetString(uuid)
		return p
	}
	list := func(ca interface {
		List(context.Context, interface{}) error
	}) model.Model {
		lst := reflect.New(reflect.SliceOf(e.typ))
		if err := ca.List(context.Background(), lst.Interface()); err != nil {
			panic(err)
		}
		for k := 0; k < lst.Elem().Len(); k++ {
			m := lst.Elem().Index(k).Interface()
			if reflect.ValueOf(m).Elem().FieldByName("UUID").String() == uuid {
				return m
			}
		}
		return nil
	}
	// the same into a slice of struct values ([]T instead of []*T): the element is handed back through its address
	listV := func(ca interface {
		List(context.Context, interface{}) error
	}) model.Model {
		lst := reflect.New(reflect.SliceOf(e.typ.Elem()))
		if err := ca.List(context.Background(), lst.Interface()); err != nil {
			panic(err)
		}
		for k := 0; k < lst.Elem().Len(); k++ {
			el := lst.Elem().Index(k)
			if el.FieldByName("UUID").String() == uuid {
				return el.Addr().Interface()
			}
		}
		return nil
	}
	rd := map[string]func() model.Model{
		"api.List[]T":   func() model.Model { return listV(api) },
		"Where.List[]T": func() model.Model { return listV(api.Where(probe())) },
		"WhereCache.List[]T": func() model.Model {
			fn := reflect.MakeFunc(reflect.FuncOf([]reflect.Type{e.typ}, []reflect.Type{reflect.TypeOf(true)}, false), func(args []reflect.Value) []reflect.Value {
				return []reflect.Value{reflect.ValueOf(true)}
			})
			return listV(api.WhereCache(fn.Interface()))
		},
		"Row":  func() model.Model { return t.Row(uuid) },
		"Rows": func() model.Model { return t.Rows()[uuid] },
		"RowByModel": func() model.Model {
			_, m, err := t.RowByModel(probe())
			if err != nil {
				panic(err)
			}
			return m
		},
		"RowsByModels": func() model.Model {
			ms, err := t.RowsByModels([]model.Model{probe()})
			if err != nil {
				panic(err)
			}
			return ms[uuid]
		},
		"api.Get": func() model.Model {
			p := probe()
			if err := api.Get(context.Background(), p); err != nil {
				panic(err)
			}
			return p
		},
		"api.List":   func() model.Model { return list(api) },
		"Where.List": func() model.Model { return list(api.Where(probe())) },
		"WhereCache.List": func() model.Model {
			fn := reflect.MakeFunc(reflect.FuncOf([]reflect.Type{e.typ}, []reflect.Type{reflect.TypeOf(true)}, false), func(args []reflect.Value) []reflect.Value {
				return []reflect.Value{reflect.ValueOf(true)}
			})
			return list(api.WhereCache(fn.Interface()))
		},
	}
	for name, cs := range e.conds(uuid) {
		cs := cs
		rd["RowsByCondition["+name+"]"] = func() model.Model {
			ms, err := t.RowsByCondition(cs)
			if err != nil {
				panic(err)
			}
			return ms[uuid]
		}
	}
	if e.indexField != "" {
		// a model without _uuid whose indexed field has the value the cached row has now
		iprobe := func() model.Model {
			p := reflect.New(e.typ.Elem()).Interface()
			cur := t.Row(uuid)
			if cur == nil {
				return p
			}
			reflect.ValueOf(p).Elem().FieldByName(e.indexField).Set(reflect.ValueOf(cur).Elem().FieldByName(e.indexField))
			return p
		}
		if e.indexSchema {
			rd["RowByModel(by index)"] = func() model.Model {
				_, m, err := t.RowByModel(iprobe())
				if err != nil {
					panic(err)
				}
				return m
			}
			rd["api.Get(by index)"] = func() model.Model {
				p := iprobe()
				if err := api.Get(context.Background(), p); err != nil {
					panic(err)
				}
				return p
			}
		}
		rd["RowsByModels(by index)"] = func() model.Model {
			ms, err := t.RowsByModels([]model.Model{iprobe()})
			if err != nil {
				panic(err)
			}
			return ms[uuid]
		}
		rd["Where(by index).List"] = func() model.Model { return list(api.Where(iprobe())) }
		rd["Where(by index).List[]T"] = func() model.Model { return listV(api.Where(iprobe())) }
	}
	if e.fieldP != nil {
		rd["WhereAll.List"] = func() model.Model {
			p := probe()
			fp, val := e.fieldP(p)
			return list(api.WhereAll(p, model.Condition{Field: fp, Function: ovsdb.ConditionNotEqual, Value: val}))
		}
		rd["WhereAll.List[]T"] = func() model.Model {
			p := probe()
			fp, val := e.fieldP(p)
			return listV(api.WhereAll(p, model.Condition{Field: fp, Function: ovsdb.ConditionNotEqual, Value: val}))
		}
		rd["WhereAny.List"] = func() model.Model {
			p := probe()
			fp, val := e.fieldP(p)
			return list(api.WhereAny(p, model.Condition{Field: fp, Function: ovsdb.ConditionNotEqual, Value: val}))
		}
	}
	return rd
}

func (e *isoEnv) run(r *ev.Run) {
	uuid := tU[0]
	l := logr.Discard()
	writers := []string{"Create", "Update", "NewTableCache(data)", "Populate2", "ApplyCacheUpdate"}
	for _, w := range writers {
		func() {
			defer func() {
				if p := recover(); p != nil {
					r.Violation("c13.panic."+e.kind+"."+w, fmt.Sprintf("[%s] write path %s: panic %v at %s", e.kind, w, p, sys.PanicSite(string(debug.Stack()))), map[string]interface{}{"stack": string(debug.Stack())})
				}
			}()
			given := e.rich(uuid, 1)
			var tc *cache.TableCache
			var err error
			h := &recHandler{}
			mk := func(data cache.Data) *cache.TableCache {
				c, err := cache.NewTableCache(e.dbm, data, &l)
				if err != nil {
					panic(err)
				}
				c.AddEventHandler(h)
				return c
			}
			switch w {
			case "Create":
				tc = mk(nil)
				err = tc.Table(e.table).Create(uuid, given, true)
			case "Update":
				tc = mk(nil)
				if err = tc.Table(e.table).Create(uuid, e.rich(uuid, 0), true); err == nil {
					_, err = tc.Table(e.table).Update(uuid, given, true)
				}
			case "NewTableCache(data)":
				tc = mk(cache.Data{e.table: {uuid: given}})
			case "Populate2":
				tc = mk(nil)
				info, _ := e.dbm.NewModelInfo(given)
				row, rerr := e.dbm.Mapper.NewRow(info)
				if rerr != nil {
					panic(rerr)
				}
				delete(row, "_uuid")
				var wire ovsdb.Row
				if jerr := jsonRoundTrip(row, &wire); jerr != nil {
					panic(jerr)
				}
				err = tc.Populate2(ovsdb.TableUpdates2{e.table: {uuid: &ovsdb.RowUpdate2{Insert: &wire}}})
			case "ApplyCacheUpdate":
				tc = mk(nil)
				err = tc.ApplyCacheUpdate(&c05Update{table: e.table, rows: []struct {
					uuid     string
					old, new model.Model
				}{{uuid, nil, given}}})
			}
			if err != nil {
				r.Add("write_path_errors", 1)
				r.Note(fmt.Sprintf("[%s] write path %s: %v", e.kind, w, err))
				return
			}
			pristine := e.rich(uuid, 1)
			want := canon.Model(pristine)
			// (1) a model handed to the cache can be modified afterwards
			muts := mutateAll(given)
			readers := e.readers(tc, uuid)
			var names []string
			for n := range readers {
				names = append(names, n)
			}
			sort.Strings(names)
			for _, n := range names {
				r.Add("evaluations", 1)
				got := readers[n]()
				if got == nil {
					r.Violation("c13.read-missing."+e.kind+"."+n, fmt.Sprintf("[%s] %s after %s returns nothing", e.kind, n, w), nil)
					continue
				}
				if canon.Model(got) != want {
					r.Violation("c13.write-path-aliases-caller-model."+e.kind+"."+w, fmt.Sprintf("[%s] after %s, modifying the model handed to the cache (%s) changed what %s returns: fields %v", e.kind, w, strings.Join(muts, ","), n, diffFields(got, pristine)),
						map[string]interface{}{"kind": e.kind, "write": w, "read": n, "got": canon.Model(got), "want": want})
				}
			}
			// (2) a model returned by any read path can be modified without changing what any path returns next
			for _, n := range names {
				got := readers[n]()
				if got == nil {
					continue
				}
				muts := mutateAll(got)
				r.Distinct("nontrivial", e.kind+"/"+w+"/"+n)
				for _, n2 := range names {
					r.Add("evaluations", 1)
					again := readers[n2]()
					if again == nil || canon.Model(again) != want {
						r.Violation("c13.returned-model-aliases-cache."+e.kind+"."+n, fmt.Sprintf("[%s] (row written by %s) modifying the model returned by %s (%s) changed what %s returns: fields %v", e.kind, w, n, strings.Join(muts, ","), n2, diffFields(again, pristine)),
							map[string]interface{}{"kind": e.kind, "write": w, "mutated_read": n, "read": n2, "got": canon.Model(again), "want": want})
						// repair the cache for the next reader so one alias is reported once per path
						tc.Table(e.table).Update(uuid, e.rich(uuid, 1), false)
						break
					}
				}
			}
			// (3) models passed to event handlers
			stop := make(chan struct{})
			done := make(chan struct{})
			go func() { tc.Run(stop); close(done) }()
			upd := e.rich(uuid, 2)
			if _, err := tc.Table(e.table).Update(uuid, upd, false); err != nil {
				panic(err)
			}
			tc.ApplyCacheUpdate(&c05Update{table: e.table, rows: []struct {
				uuid     string
				old, new model.Model
			}{{uuid, e.rich(uuid, 2), e.rich(uuid, 1)}}})
			tc.ApplyCacheUpdate(&c05Update{table: e.table, rows: []struct {
				uuid     string
				old, new model.Model
			}{{uuid, e.rich(uuid, 1), nil}}})
			tc.ApplyCacheUpdate(&c05Update{table: e.table, rows: []struct {
				uuid     string
				old, new model.Model
			}{{uuid, nil, e.rich(uuid, 1)}}})
			// drain: the dispatcher has no completion signal; wait until the expected number of events arrived
			for i := 0; i < 2000; i++ {
				h.mu.Lock()
				n := len(h.events)
				h.mu.Unlock()
				if n >= 3 {
					break
				}
				ev.Yield()
			}
			// ... and the notification paths, where the cache itself builds the models the handlers get (the old model of an
			// update event is the object the cache held until then): v1 (full new row) and update2 (difference of the scalars)
			rowOf := func(m model.Model) ovsdb.Row {
				info, _ := e.dbm.NewModelInfo(m)
				row, rerr := e.dbm.Mapper.NewRow(info)
				if rerr != nil {
					panic(rerr)
				}
				delete(row, "_uuid")
				var wire ovsdb.Row
				if jerr := jsonRoundTrip(row, &wire); jerr != nil {
					panic(jerr)
				}
				return wire
			}
			expect := 3
			waitEvents := func(n int) {
				for i := 0; i < 2000; i++ {
					h.mu.Lock()
					k := len(h.events)
					h.mu.Unlock()
					if k >= n {
						return
					}
					ev.Yield()
				}
			}
			waitEvents(expect)
			r1, r2 := rowOf(e.rich(uuid, 1)), rowOf(e.rich(uuid, 2))
			for cn := range r2 {
				if cs := e.dbm.Schema.Table(e.table).Column(cn); cs != nil && !cs.Mutable() {
					r2[cn] = r1[cn] // a notification never changes an immutable column
				}
			}
			if perr := tc.Populate(ovsdb.TableUpdates{e.table: {uuid: &ovsdb.RowUpdate{Old: &r1, New: &r2}}}); perr != nil {
				r.Note(fmt.Sprintf("[%s] Populate (v1 modify) refused: %v", e.kind, perr))
			} else {
				expect++
			}
			waitEvents(expect)
			diff := ovsdb.Row{}
			for cn, v := range r1 {
				cs := e.dbm.Schema.Table(e.table).Column(cn)
				if cs != nil && cs.Type != ovsdb.TypeSet && cs.Type != ovsdb.TypeMap && !reflect.DeepEqual(v, r2[cn]) {
					diff[cn] = v
				}
			}
			if len(diff) > 0 {
				if perr := tc.Populate2(ovsdb.TableUpdates2{e.table: {uuid: &ovsdb.RowUpdate2{Modify: &diff}}}); perr != nil {
					r.Note(fmt.Sprintf("[%s] Populate2 (modify) refused: %v", e.kind, perr))
				} else {
					expect++
				}
				waitEvents(expect)
			}
			r.Add("notification_path_events", int64(expect-3))
			// what the readers return now is the reference for the comparison below
			if ref := readers[names[0]](); ref != nil {
				want = canon.Model(ref)
				pristine = model.Clone(ref)
			}
			close(stop)
			<-done
			h.mu.Lock()
			evs := h.events
			h.mu.Unlock()
			for _, evn := range evs {
				for _, m := range []model.Model{evn.old, evn.new} {
					if m == nil {
						continue
					}
					mutateAll(m)
				}
			}
			r.Add("handler_events", int64(len(evs)))
			for _, n := range names {
				r.Add("evaluations", 1)
				again := readers[n]()
				if again == nil || canon.Model(again) != want {
					r.Violation("c13.handler-argument-aliases-cache."+e.kind, fmt.Sprintf("[%s] modifying the models passed to an event handler changed what %s returns: fields %v", e.kind, n, diffFields(again, pristine)), nil)
					break
				}
			}
		}()
	}
}

func runC13(r *ev.Run) {
	r.SetDeadline(20 * 60 * 1e9)
	r.Set("rule", "case = (model kind, write path, read path, all caller mutations of the returned model: overwrite scalar, write through pointer, overwrite slice element, append within/over capacity, insert/overwrite/delete map entry); after the mutation every read path must still return the pristine row; plus Clone/Equal laws over pairs of values per field; non-trivial = (kind, write path, mutated read path) triple")
	// ---- run-time structs (JSON clone path) over every column type
	te := newTypEnv()
	rich := func(uuid string, variant int) model.Model {
		m := te.dbs.NewModel("T")
		schemas.Set(m, "_uuid", uuid)
		for _, cn := range te.t.ColNames() {
			u := orderedUniverse(te.t.Cols[cn], 3, 2)
			var pick ov
			switch {
			case te.t.Cols[cn].IsMap:
				pick = u[len(u)-2-variant%2] // a map with several entries
			default:
				pick = u[len(u)-1-variant%2]
			}
			schemas.Set(m, cn, pick.native(te.t.Cols[cn], te.fieldType(cn)))
		}
		schemas.Set(m, "i", 100+variant)
		return m
	}
	conds := func(uuid string) map[string][]ovsdb.Condition {
		return map[string][]ovsdb.Condition{
			"none":           nil,
			"_uuid==":        {ovsdb.NewCondition("_uuid", ovsdb.ConditionEqual, ovsdb.UUID{GoUUID: uuid})},
			"_uuid includes": {ovsdb.NewCondition("_uuid", ovsdb.ConditionIncludes, ovsdb.UUID{GoUUID: uuid})},
			"_uuid== and i>": {ovsdb.NewCondition("_uuid", ovsdb.ConditionEqual, ovsdb.UUID{GoUUID: uuid}), ovsdb.NewCondition("i", ovsdb.ConditionGreaterThan, 5)},
			"i== (indexed)":  {ovsdb.NewCondition("i", ovsdb.ConditionEqual, 101)},
			"i>":             {ovsdb.NewCondition("i", ovsdb.ConditionGreaterThan, 5)},
			"b!=":            {ovsdb.NewCondition("s", ovsdb.ConditionNotEqual, "no such value")},
		}
	}
	(&isoEnv{kind: "runtime-struct", dbm: te.dbm, table: "T", typ: te.dbs.Types["T"], rich: rich, conds: conds, indexField: schemas.FieldName("i"), indexSchema: true,
		fieldP: func(m model.Model) (interface{}, interface{}) {
			return reflect.ValueOf(m).Elem().FieldByName(schemas.FieldName("s")).Addr().Interface(), "no such value"
		}}).run(r)
	// ---- generated model with its own deep copy (serverdb.Database)
	var sschema ovsdb.DatabaseSchema
	scm, err := serverdb.FullDatabaseModel()
	if err != nil {
		panic(err)
	}
	sschema = serverdb.Schema()
	scm.SetIndexes(map[string][]model.ClientIndex{"Database": {{Columns: []model.ColumnKey{{Column: "name"}}}}})
	sdbm, errs := model.NewDatabaseModel(sschema, scm)
	if len(errs) > 0 {
		panic(fmt.Sprint(errs))
	}
	srich := func(uuid string, variant int) model.Model {
		s := func(x string) *string { x = fmt.Sprintf("%s%d", x, variant); return &x }
		i := 7 + variant
		return &serverdb.Database{UUID: uuid, Cid: s("cid"), Connected: true, Index: &i, Leader: variant%2 == 0, Model: serverdb.DatabaseModelClustered, Name: fmt.Sprintf("db%d", variant), Schema: s("schema"), Sid: s("sid")}
	}
	(&isoEnv{kind: "generated-deepcopy", dbm: sdbm, table: "Database", typ: reflect.TypeOf(&serverdb.Database{}), rich: srich, indexField: "Name",
		conds: func(uuid string) map[string][]ovsdb.Condition {
			return map[string][]ovsdb.Condition{"none": nil, "_uuid==": {ovsdb.NewCondition("_uuid", ovsdb.ConditionEqual, ovsdb.UUID{GoUUID: uuid})}, "name!=": {ovsdb.NewCondition("name", ovsdb.ConditionNotEqual, "zzz")}}
		},
		fieldP: func(m model.Model) (interface{}, interface{}) { return &m.(*serverdb.Database).Name, "zzz" }}).run(r)

	// ---- Clone / Equal laws
	law := func(kind string, mk func(col string, v ov) model.Model, cols []string, uni func(col string) []ov, shape func(col string) string) {
		for _, cn := range cols {
			vals := uni(cn)
			for ai, a := range vals {
				r.Add("evaluations", 1)
				A := mk(cn, a)
				snap := snapshot(A)
				func() {
					defer func() {
						if p := recover(); p != nil {
							r.Violation("c13.clone.panic."+kind+"."+shape(cn), fmt.Sprintf("[%s] %s=%s: %v", kind, cn, a, p), nil)
						}
					}()
					cl := model.Clone(A)
					if !model.Equal(A, cl) || !model.Equal(cl, A) {
						r.Violation("c13.clone-not-equal."+kind+"."+shape(cn), fmt.Sprintf("[%s] %s=%s: Clone(a) is not Equal to a: %s vs %s", kind, cn, a, canon.Model(A), canon.Model(cl)), map[string]interface{}{"column": cn, "value": a.String()})
					} else if canon.Model(cl) != canon.Model(A) {
						r.Violation("c13.clone-differs."+kind+"."+shape(cn), fmt.Sprintf("[%s] %s=%s: Clone differs: %s vs %s", kind, cn, a, canon.Model(A), canon.Model(cl)), nil)
					}
					if !model.Equal(A, A) {
						r.Violation("c13.equal-not-reflexive."+kind+"."+shape(cn), fmt.Sprintf("[%s] %s=%s", kind, cn, a), nil)
					}
					mutateAll(cl)
					if snapshot(A) != snap {
						r.Violation("c13.clone-shares-memory."+kind+"."+shape(cn), fmt.Sprintf("[%s] %s=%s: modifying the clone changed the original: %s -> %s", kind, cn, a, snap, snapshot(A)), nil)
					}
					into := mk(cn, vals[(ai+1)%len(vals)])
					model.CloneInto(A, into)
					if canon.Model(into) != canon.Model(A) {
						r.Violation("c13.cloneinto-differs."+kind+"."+shape(cn), fmt.Sprintf("[%s] %s=%s: CloneInto gives %s", kind, cn, a, canon.Model(into)), nil)
					}
					mutateAll(into)
					if snapshot(A) != snap {
						r.Violation("c13.cloneinto-shares-memory."+kind+"."+shape(cn), fmt.Sprintf("[%s] %s=%s", kind, cn, a), nil)
					}
					for bi, b := range vals {
						B := mk(cn, b)
						eq1, eq2 := model.Equal(A, B), model.Equal(B, A)
						if eq1 != eq2 {
							r.Violation("c13.equal-not-symmetric."+kind+"."+shape(cn), fmt.Sprintf("[%s] %s: a=%s b=%s: Equal(a,b)=%v Equal(b,a)=%v", kind, cn, a, b, eq1, eq2), nil)
						}
						if canon.Model(A) != canon.Model(B) && (eq1 || eq2) {
							r.Violation("c13.equal-misses-difference."+kind+"."+shape(cn), fmt.Sprintf("[%s] %s: a=%s b=%s differ but Equal says true", kind, cn, a, b), nil)
						}
						if ai == bi && !eq1 {
							r.Violation("c13.equal-same-value."+kind+"."+shape(cn), fmt.Sprintf("[%s] %s: two models built from the same value %s are not Equal", kind, cn, a), nil)
						}
						r.Add("evaluations", 1)
					}
				}()
			}
		}
	}
	law("runtime-struct", func(col string, v ov) model.Model { return te.mkModel(tU[0], col, v) }, te.t.ColNames(),
		func(col string) []ov { return orderedUniverse(te.t.Cols[col], 2, 2) }, func(col string) string { return colShape(te.t.Cols[col]) })
	// a map keyed by reals (JSON cannot encode it)
	{
		dbs := schemas.MustBuild(`{"name":"RK","version":"1.0.0","tables":{"T":{"columns":{"mrs":{"type":{"key":{"type":"real"},"value":{"type":"string"},"min":0,"max":"unlimited"}},"mbs":{"type":{"key":{"type":"boolean"},"value":{"type":"string"},"min":0,"max":"unlimited"}},"name":{"type":"string"}}}}}`, nil)
		ref := rm.FromOvsdb(dbs.Schema)
		law("runtime-struct", func(col string, v ov) model.Model {
			m := dbs.NewModel("T")
			schemas.Set(m, "_uuid", tU[0])
			schemas.Set(m, "name", "n")
			f, _ := dbs.Types["T"].Elem().FieldByName(schemas.FieldName(col))
			schemas.Set(m, col, v.native(ref.Tables["T"].Cols[col], f.Type))
			return m
		}, []string{"mrs", "mbs"}, func(col string) []ov { return orderedUniverse(ref.Tables["T"].Cols[col], 2, 2) }, func(col string) string { return colShape(ref.Tables["T"].Cols[col]) })
	}
	// generated model
	{
		vals := []model.Model{srich(tU[0], 0), srich(tU[0], 1), &serverdb.Database{UUID: tU[0]}}
		for i, a := range vals {
			cl := model.Clone(a)
			if !model.Equal(a, cl) || canon.Model(a) != canon.Model(cl) {
				r.Violation("c13.clone-not-equal.generated-deepcopy", fmt.Sprintf("Clone(%s) = %s", canon.Model(a), canon.Model(cl)), nil)
			}
			snap := snapshot(a)
			mutateAll(cl)
			if snapshot(a) != snap {
				r.Violation("c13.clone-shares-memory.generated-deepcopy", fmt.Sprintf("modifying the clone changed the original: %s -> %s", snap, snapshot(a)), nil)
			}
			for j, b := range vals {
				if (i == j) != model.Equal(a, b) || model.Equal(a, b) != model.Equal(b, a) {
					r.Violation("c13.equal.generated-deepcopy", fmt.Sprintf("Equal(%s,%s)=%v", canon.Model(a), canon.Model(b), model.Equal(a, b)), nil)
				}
				r.Add("evaluations", 1)
			}
		}
	}
	r.Set("distinct_nontrivial", r.DistinctCount("nontrivial"))
	r.Sample(map[string]interface{}{"kind": "runtime-struct", "write": "Create", "mutated_read": "RowsByCondition[_uuid==]", "mutations": mutateAll(rich(tU[0], 1))})
	_ = sys.ToOvs
}
