package checks

// C08 — selecting rows by condition is exact, with or without indexes.

import (
	"context"
	"encoding/json"
	"fmt"
	"reflect"
	"sort"
	"strings"

	"github.com/go-logr/logr"
	"github.com/ovn-org/libovsdb/cache"
	"github.com/ovn-org/libovsdb/client"
	"github.com/ovn-org/libovsdb/model"
	"github.com/ovn-org/libovsdb/ovsdb"

	"verif/mc/ev"
	"verif/mc/par"
	rm "verif/mc/refmodel"
	"verif/mc/schemas"
	"verif/mc/sys"
)

func init() { register("C08", "exploration", runC08) }

const c08SchemaTmpl = `{"name":"SEL","version":"1.0.0","tables":{"T":{"columns":{
 "a":{"type":"string"},
 "b":{"type":"string"},
 "c":{"type":{"key":{"type":"string"},"min":0,"max":1}},
 "n":{"type":"integer"},
 "r":{"type":"real"},
 "bo":{"type":"boolean"},
 "u":{"type":"uuid"},
 "e":{"type":{"key":{"type":"string","enum":["set",["red","green"]]}}},
 "oi":{"type":{"key":{"type":"integer"},"min":0,"max":1}},
 "ss":{"type":{"key":{"type":"string"},"min":0,"max":"unlimited"}},
 "si":{"type":{"key":{"type":"integer"},"min":0,"max":"unlimited"}},
 "m":{"type":{"key":{"type":"string"},"value":{"type":"string"},"min":0,"max":"unlimited"}}},
 "indexes":%s}}}`

type c08Cfg struct {
	name   string
	schema string
	client []model.ClientIndex
}

func c08Cfgs(level int) []c08Cfg {
	all := []c08Cfg{
		{"none", `[]`, nil},
		{"schema[a]", `[["a"]]`, nil},
		{"schema[a],[a,b]", `[["a"],["a","b"]]`, nil},
		{"client[n],[c]", `[]`, []model.ClientIndex{ck("n"), ck("c")}},
		{"client[m|k1],[n]", `[]`, []model.ClientIndex{ck([2]string{"m", "k1"}), ck("n")}},
		{"client[m|k1,m|k2]", `[]`, []model.ClientIndex{ck([2]string{"m", "k1"}, [2]string{"m", "k2"})}}, // one index over two keys of one map
		{"schema[a]+client[a],[b],[n]", `[["a"]]`, []model.ClientIndex{ck("a"), ck("b"), ck("n")}},
		{"client[b,n],[c]", `[]`, []model.ClientIndex{ck("b", "n"), ck("c")}},
		{"schema[a,b]+client[m|k1],[m|k2],[bo]", `[["a","b"]]`, []model.ClientIndex{ck([2]string{"m", "k1"}), ck([2]string{"m", "k2"}), ck("bo")}},
	}
	if level == 0 {
		return all
	}
	all = append(all,
		c08Cfg{"client[b],[n],[c],[bo],[e]", `[]`, []model.ClientIndex{ck("b"), ck("n"), ck("c"), ck("bo"), ck("e")}},
		c08Cfg{"schema[a],[a,b]+client[b,n],[n],[oi]", `[["a"],["a","b"]]`, []model.ClientIndex{ck("b", "n"), ck("n"), ck("oi")}},
		c08Cfg{"client[r],[u]", `[]`, []model.ClientIndex{ck("r"), ck("u")}},
	)
	return all
}

var c08UUIDs = []string{uu("8", 1), uu("8", 2), uu("8", 3)}

func c08Rows() []rm.Row {
	s := func(x string) rm.Value { return rm.SetOf(rm.S(x)) }
	i := func(x int64) rm.Value { return rm.SetOf(rm.I(x)) }
	return []rm.Row{
		{"a": s("x"), "b": s("p"), "c": rm.SetOf(), "n": i(0), "r": rm.SetOf(rm.R(0)), "bo": rm.SetOf(rm.B(false)), "u": rm.SetOf(rm.U("")), "e": s("red"), "oi": rm.SetOf(), "ss": rm.SetOf(), "si": rm.SetOf(), "m": rm.MapOf()},
		{"a": s("y"), "b": s("p"), "c": s("q"), "n": i(1), "r": rm.SetOf(rm.R(1.5)), "bo": rm.SetOf(rm.B(true)), "u": rm.SetOf(rm.U(x1)), "e": s("green"), "oi": i(1), "ss": s("a"), "si": i(1), "m": rm.MapOf(rm.S("k1"), rm.S("u"))},
		{"a": s("z"), "b": s("r"), "c": s("q"), "n": i(1), "r": rm.SetOf(rm.R(-2)), "bo": rm.SetOf(rm.B(true)), "u": rm.SetOf(rm.U(x2)), "e": s("red"), "oi": i(2), "ss": rm.SetOf(rm.S("a"), rm.S("b")), "si": rm.SetOf(rm.I(1), rm.I(2)), "m": rm.MapOf(rm.S("k1"), rm.S("u"), rm.S("k2"), rm.S("w"))},
		{"a": s("w"), "b": s("r"), "c": s("s"), "n": i(2), "r": rm.SetOf(rm.R(1.5)), "bo": rm.SetOf(rm.B(false)), "u": rm.SetOf(rm.U(x1)), "e": s("green"), "oi": i(1), "ss": s("b"), "si": i(2), "m": rm.MapOf(rm.S("k1"), rm.S("w"))},
	}
}

// condition universe: per column the argument values
func c08Conds(ref *rm.Schema, level int) []rm.Cond {
	t := ref.Tables["T"]
	rows := c08Rows()
	var out []rm.Cond
	for _, cn := range t.ColNames() {
		c := t.Cols[cn]
		seen := map[string]bool{}
		var args []rm.Value
		addArg := func(v rm.Value) {
			if !seen[v.String()] {
				seen[v.String()] = true
				args = append(args, v)
			}
		}
		for _, r := range rows {
			addArg(r[cn])
		}
		// values no row has, empty collections, partial overlaps
		switch {
		case c.IsMap:
			addArg(rm.MapOf())
			addArg(rm.MapOf(rm.S("k1"), rm.S("nope")))
			addArg(rm.MapOf(rm.S("k2"), rm.S("w")))
			addArg(rm.MapOf(rm.S("k1"), rm.S("u"), rm.S("k9"), rm.S("z")))
			// the zero value of the value type under an indexed key: a row lacking the key must not be taken for one holding it
			addArg(rm.MapOf(rm.S("k1"), rm.S("")))
			addArg(rm.MapOf(rm.S("k2"), rm.S("")))
		case c.Scalar():
			switch c.KeyT {
			case "integer":
				addArg(rm.SetOf(rm.I(7)))
			case "real":
				addArg(rm.SetOf(rm.R(0.5)))
			case "uuid":
				addArg(rm.SetOf(rm.U(x3)))
			case "string":
				if len(c.Enum) == 0 {
					addArg(rm.SetOf(rm.S("none")))
				}
			}
		case c.Max == 1:
			addArg(rm.SetOf())
			if c.KeyT == "integer" {
				addArg(rm.SetOf(rm.I(9)))
			} else {
				addArg(rm.SetOf(rm.S("none")))
			}
		default:
			addArg(rm.SetOf())
			if c.KeyT == "integer" {
				addArg(rm.SetOf(rm.I(2), rm.I(9)))
				addArg(rm.SetOf(rm.I(9)))
			} else {
				addArg(rm.SetOf(rm.S("b"), rm.S("zz")))
				addArg(rm.SetOf(rm.S("zz")))
			}
		}
		for _, fn := range condFns {
			rel := fn == "<" || fn == "<=" || fn == ">" || fn == ">="
			if rel && !(c.Scalar() && (c.KeyT == "integer" || c.KeyT == "real")) {
				continue // not well-typed
			}
			for _, a := range args {
				out = append(out, rm.Cond{Col: cn, Fn: fn, Val: a})
			}
		}
	}
	for _, fn := range []string{"==", "!=", "includes", "excludes"} {
		for _, u := range []string{c08UUIDs[0], c08UUIDs[1], uu("8", 9)} {
			out = append(out, rm.Cond{Col: "_uuid", Fn: fn, Val: rm.SetOf(rm.U(u))})
		}
	}
	return out
}

type c08Env struct {
	cfg c08Cfg
	dbs *schemas.DB
	dbm model.DatabaseModel
	ref *rm.Schema
}

func newC08Env(cfg c08Cfg) *c08Env {
	var ci map[string][]model.ClientIndex
	if len(cfg.client) > 0 {
		ci = map[string][]model.ClientIndex{"T": cfg.client}
	}
	dbs := schemas.MustBuild(fmt.Sprintf(c08SchemaTmpl, cfg.schema), ci)
	return &c08Env{cfg: cfg, dbs: dbs, dbm: dbs.DBModel(), ref: rm.FromOvsdb(dbs.Schema)}
}

func (e *c08Env) mkModel(uuid string, row rm.Row) model.Model {
	or := sys.ToOvsRow(e.ref.Tables["T"], row)
	m, err := model.CreateModel(e.dbm, "T", &or, uuid)
	if err != nil {
		panic(err)
	}
	return m
}

func (e *c08Env) ovsConds(cs []rm.Cond, rev bool) []ovsdb.Condition {
	var out []ovsdb.Condition
	for _, c := range cs {
		var col *rm.Col
		if c.Col != "_uuid" {
			col = e.ref.Tables["T"].Cols[c.Col]
		}
		v := sys.ToOvs(col, c.Val)
		if rev {
			if s, ok := v.(ovsdb.OvsSet); ok {
				r := make([]interface{}, len(s.GoSet))
				for i, x := range s.GoSet {
					r[len(r)-1-i] = x
				}
				v = ovsdb.OvsSet{GoSet: r}
			}
		}
		out = append(out, ovsdb.NewCondition(c.Col, ovsdb.ConditionFunction(c.Fn), v))
	}
	return out
}

// brute-force evaluation
func c08Brute(ref *rm.Schema, content map[string]rm.Row, cs []rm.Cond) (map[string]bool, error) {
	out := map[string]bool{}
	for u, r := range content {
		ok := true
		for _, c := range cs {
			var v rm.Value
			col := &rm.Col{Name: "_uuid", KeyT: "uuid", Min: 1, Max: 1}
			if c.Col == "_uuid" {
				v = rm.SetOf(rm.U(u))
			} else {
				col = ref.Tables["T"].Cols[c.Col]
				v = r[c.Col]
			}
			m, err := rm.EvalCond(col, v, c.Fn, c.Val)
			if err != nil {
				return nil, err
			}
			if !m {
				ok = false
				break
			}
		}
		if ok {
			out[u] = true
		}
	}
	return out, nil
}

func setStr(m map[string]bool) string {
	var s []string
	for k := range m {
		s = append(s, short(k))
	}
	sort.Strings(s)
	return "{" + strings.Join(s, ",") + "}"
}

func condStr(cs []rm.Cond) string {
	var s []string
	for _, c := range cs {
		s = append(s, fmt.Sprintf("%s %s %s", c.Col, c.Fn, c.Val))
	}
	return strings.Join(s, " AND ")
}

func condClass(ref *rm.Schema, cs []rm.Cond) string {
	var s []string
	for _, c := range cs {
		sh := "uuid"
		if c.Col != "_uuid" {
			sh = shapeClass(ref.Tables["T"].Cols[c.Col])
		}
		arg := "nonempty"
		if c.Val.Len() == 0 {
			arg = "empty"
		}
		s = append(s, fmt.Sprintf("%s.%s.%s", c.Fn, sh, arg))
	}
	sort.Strings(s)
	return strings.Join(s, "+")
}

func (e *c08Env) newCache(content map[string]rm.Row) *cache.TableCache {
	l := logr.Discard()
	tc, err := cache.NewTableCache(e.dbm, nil, &l)
	if err != nil {
		panic(err)
	}
	var us []string
	for u := range content {
		us = append(us, u)
	}
	sort.Strings(us)
	for _, u := range us {
		if err := tc.Table("T").Create(u, e.mkModel(u, content[u]), true); err != nil {
			panic(err)
		}
	}
	return tc
}

func modelsToSet(m map[string]model.Model) map[string]bool {
	o := map[string]bool{}
	for u := range m {
		o[u] = true
	}
	return o
}

func runC08(r *ev.Run) {
	level := 0
	if r.Tier == "thorough" {
		level = 1
		r.SetDeadline(40 * 60 * 1e9)
	} else {
		r.SetDeadline(150 * 1e9)
	}
	r.Set("rule", "case = (table content of <= 3 rows over a 4-row universe, list of 1-2 (thorough: 3) well-typed conditions, index configuration); RowsByCondition / Database.List / WhereAll / WhereAny are compared with a brute-force RFC 7047 evaluation and across index configurations; non-trivial = case in which the conditions select a non-empty proper subset of the rows")
	r.Assume("conditions are well typed for their column; relational operators only on integer/real scalars")
	cfgs := c08Cfgs(level)
	envs := make([]*c08Env, len(cfgs))
	for i, c := range cfgs {
		envs[i] = newC08Env(c)
	}
	ref := envs[0].ref
	rows := c08Rows()
	// contents: each of 3 uuids absent or one of the 4 rows, all a-values distinct
	var contents []map[string]rm.Row
	for code := 0; code < 125; code++ {
		c := code
		content := map[string]rm.Row{}
		used := map[int]bool{}
		ok := true
		for i := 0; i < 3; i++ {
			v := c%5 - 1
			c /= 5
			if v < 0 {
				continue
			}
			if used[v] {
				ok = false
			}
			used[v] = true
			content[c08UUIDs[i]] = rows[v]
		}
		if ok {
			contents = append(contents, content)
		}
	}
	singles := c08Conds(ref, level)
	// reduced list for pairs: conditions that can interact with indexes or are cheap discriminators
	var reduced []rm.Cond
	for _, c := range singles {
		if c.Fn == "==" || c.Fn == "includes" || c.Fn == "excludes" || c.Fn == "!=" && (c.Col == "n" || c.Col == "_uuid") || c.Fn == "<" && c.Col == "n" {
			reduced = append(reduced, c)
		}
	}
	var lists [][]rm.Cond
	for _, c := range singles {
		lists = append(lists, []rm.Cond{c})
	}
	pairStep := 1
	if level == 0 {
		pairStep = 3
	}
	for i := 0; i < len(reduced); i++ {
		for j := 0; j < len(reduced); j++ {
			bothMap := reduced[i].Col == "m" && reduced[j].Col == "m" && reduced[i].Fn == "includes" && reduced[j].Fn == "includes" // two conditions on keys of one map meet multi-key indexes
			if level == 0 && (i*len(reduced)+j)%pairStep != 0 && !(reduced[i].Fn == "==" && reduced[j].Fn == "==") && !bothMap {
				continue
			}
			lists = append(lists, []rm.Cond{reduced[i], reduced[j]})
		}
	}
	if level > 0 {
		var eqs []rm.Cond
		for _, c := range reduced {
			if c.Fn == "==" || (c.Fn == "includes" && c.Col == "m") {
				eqs = append(eqs, c)
			}
		}
		for i := 0; i < len(eqs); i += 2 {
			for j := 0; j < len(eqs); j += 3 {
				for k := 0; k < len(eqs); k += 2 {
					lists = append(lists, []rm.Cond{eqs[i], eqs[j], eqs[k]})
				}
			}
		}
	}
	r.Set("contents", len(contents))
	r.Set("condition_lists", len(lists))
	r.Set("single_conditions", len(singles))
	r.Set("index_configurations", len(cfgs))
	r.Sample(map[string]interface{}{"content": fmt.Sprint(contents[len(contents)/2]), "conditions": condStr(lists[len(singles)+5]), "index_config": cfgs[3].name})
	par.For(len(contents), r.Expired, func(ci int) {
		content := contents[ci]
		// one live cache per configuration, queried by every condition list in turn
		caches := make([]*cache.TableCache, len(envs))
		for i, e := range envs {
			caches[i] = e.newCache(content)
		}
		for li, cs := range lists {
			want, berr := c08Brute(ref, content, cs)
			if berr != nil {
				panic(berr)
			}
			class := condClass(ref, cs)
			if len(want) > 0 && len(want) < len(content) {
				r.Distinct("nontrivial", fmt.Sprintf("%d/%d", ci, li))
			}
			for i, e := range envs {
				for _, rev := range []bool{false, true} {
					if rev && li%4 != 0 {
						continue
					}
					got, err := caches[i].Table("T").RowsByCondition(e.ovsConds(cs, rev))
					r.Add("evaluations", 1)
					if err != nil {
						r.Add("impl_errors", 1)
						r.Distinct("impl_error_classes", class)
						r.Violation("c08.rows-error."+class+"."+cfgKind(e.cfg), fmt.Sprintf("[%s] RowsByCondition(%v) on well-typed conditions fails: %v", e.cfg.name, cs, err), map[string]interface{}{"index_config": e.cfg.name, "conditions": fmt.Sprint(cs), "error": err.Error()})
						continue
					}
					if setStr(modelsToSet(got)) != setStr(want) {
						sig := "c08.rows." + class + "." + cfgKind(e.cfg)
						// a list containing a condition that already fails alone is the same finding
						if len(cs) > 1 {
							for _, c := range cs {
								if s1 := "c08.rows." + condClass(ref, []rm.Cond{c}) + "." + cfgKind(e.cfg); r.HasSig(s1) {
									sig = s1
								}
							}
						}
						r.Violation(sig, fmt.Sprintf("[%s] rows %v ; where %s: RowsByCondition returned %s, RFC evaluation gives %s", e.cfg.name, contentStr(content), condStr(cs), setStr(modelsToSet(got)), setStr(want)),
							map[string]interface{}{"index_config": e.cfg.name, "content": contentStr(content), "conditions": condStr(cs), "got": setStr(modelsToSet(got)), "want": setStr(want), "reversed_set_order": rev})
					}
					for u, m := range got {
						if sys.FromModel(ref.Tables["T"], m).String() != content[u].String() {
							r.Violation("c08.row-content."+cfgKind(e.cfg), fmt.Sprintf("[%s] returned row %s has contents %s", e.cfg.name, short(u), sys.FromModel(ref.Tables["T"], m)), nil)
						}
					}
				}
			}
		}
		// selecting must not have changed the cache: indexes still agree with a scan
		for i, e := range envs {
			if msg := c08IndexIntegrity(e, caches[i], content); msg != "" {
				r.Violation("c08.select-mutates-index."+cfgKind(e.cfg), fmt.Sprintf("[%s] after the queries on rows %v: %s", e.cfg.name, contentStr(content), msg),
					map[string]interface{}{"index_config": e.cfg.name, "content": contentStr(content), "msg": msg})
			}
		}
		// API consistency on a subset of lists: WhereAll = AND, WhereAny = OR, generated operations hit exactly List()
		for i, e := range envs {
			if i%3 != ci%3 {
				continue
			}
			c08API(r, e, content, singles, ci)
		}
		// Where(model) / Get(model): every index configuration
		for _, e := range envs {
			c08WhereModel(r, e, content, ci)
		}
	})
	r.Set("distinct_nontrivial", r.DistinctCount("nontrivial"))
	r.Set("impl_error_class_list", r.DistinctKeys("impl_error_classes"))
}

func cfgKind(c c08Cfg) string {
	k := ""
	if c.schema != "[]" {
		k += "schema"
	}
	if len(c.client) > 0 {
		k += "client"
	}
	if k == "" {
		k = "noindex"
	}
	return k
}

func contentStr(content map[string]rm.Row) string {
	var us []string
	for u := range content {
		us = append(us, u)
	}
	sort.Strings(us)
	var s []string
	for _, u := range us {
		s = append(s, short(u)+":"+content[u]["a"].String())
	}
	return strings.Join(s, " ")
}

func c08IndexIntegrity(e *c08Env, tc *cache.TableCache, content map[string]rm.Row) string {
	t := tc.Table("T")
	check := func(cols []model.ColumnKey) string {
		var names []string
		for _, c := range cols {
			if c.Key != nil {
				names = append(names, fmt.Sprintf("%s|%v", c.Column, c.Key))
			} else {
				names = append(names, c.Column)
			}
		}
		idx, err := t.Index(names...)
		if err != nil {
			return err.Error()
		}
		scan := map[string][]string{}
		for u, r := range content {
			var p []string
			for _, c := range cols {
				v := r[c.Column]
				if c.Key != nil {
					if x, ok := v.Map[rm.S(c.Key.(string))]; ok {
						p = append(p, x.String())
					} else {
						p = append(p, "<absent>")
					}
				} else {
					p = append(p, v.String())
				}
			}
			k := strings.Join(p, "|")
			scan[k] = append(scan[k], short(u))
		}
		var want, got []string
		for _, l := range scan {
			sort.Strings(l)
			want = append(want, strings.Join(l, "+"))
		}
		for _, l := range idx {
			var s []string
			for _, u := range l {
				s = append(s, short(u))
			}
			sort.Strings(s)
			got = append(got, strings.Join(s, "+"))
		}
		sort.Strings(want)
		sort.Strings(got)
		if strings.Join(want, " ") != strings.Join(got, " ") {
			return fmt.Sprintf("index %v holds %v, scan gives %v", names, got, want)
		}
		return ""
	}
	for _, si := range e.dbs.Schema.Tables["T"].Indexes {
		var cols []model.ColumnKey
		for _, c := range si {
			cols = append(cols, model.ColumnKey{Column: c})
		}
		if m := check(cols); m != "" {
			return m
		}
	}
	for _, ci := range e.cfg.client {
		dup := false
		for _, si := range e.dbs.Schema.Tables["T"].Indexes {
			if len(si) == len(ci.Columns) {
				same := true
				for i := range si {
					if ci.Columns[i].Key != nil || ci.Columns[i].Column != si[i] {
						same = false
					}
				}
				dup = dup || same
			}
		}
		if dup {
			continue
		}
		if m := check(ci.Columns); m != "" {
			return m
		}
	}
	return ""
}

// c08API: WhereAll/WhereAny semantics and generated operations.
func c08API(r *ev.Run, e *c08Env, content map[string]rm.Row, singles []rm.Cond, ci int) {
	tc := e.newCache(content)
	api := client.VerifNewAPI(tc)
	t := e.ref.Tables["T"]
	mk := func(c rm.Cond, m model.Model) (model.Condition, bool) {
		if c.Col == "_uuid" {
			return model.Condition{}, false
		}
		f := reflect.ValueOf(m).Elem().FieldByName(schemas.FieldName(c.Col))
		or := sys.ToOvsRow(t, rm.Row{c.Col: c.Val})
		tmp, err := model.CreateModel(e.dbm, "T", &or, "")
		if err != nil {
			return model.Condition{}, false
		}
		return model.Condition{Field: f.Addr().Interface(), Function: ovsdb.ConditionFunction(c.Fn), Value: schemas.Get(tmp, c.Col)}, true
	}
	list := func(ca client.ConditionalAPI) (map[string]bool, error) {
		lst := reflect.New(reflect.SliceOf(e.dbs.Types["T"]))
		if err := ca.List(context.Background(), lst.Interface()); err != nil {
			return nil, err
		}
		out := map[string]bool{}
		for k := 0; k < lst.Elem().Len(); k++ {
			out[schemas.Get(lst.Elem().Index(k).Interface(), "_uuid").(string)] = true
		}
		return out, nil
	}
	step := 7
	for i := ci % step; i < len(singles); i += step {
		for j := (ci + i) % 5; j < len(singles); j += 11 {
			c1, c2 := singles[i], singles[j]
			m := e.dbs.NewModel("T")
			mc1, ok1 := mk(c1, m)
			mc2, ok2 := mk(c2, m)
			if !ok1 || !ok2 {
				continue
			}
			w1, _ := c08Brute(e.ref, content, []rm.Cond{c1})
			w2, _ := c08Brute(e.ref, content, []rm.Cond{c2})
			and, or := map[string]bool{}, map[string]bool{}
			for u := range w1 {
				or[u] = true
				if w2[u] {
					and[u] = true
				}
			}
			for u := range w2 {
				or[u] = true
			}
			func() {
				defer func() {
					if p := recover(); p != nil {
						r.Violation("c08.api.panic."+fmt.Sprint(p), fmt.Sprintf("WhereAll/WhereAny(%s ; %s) panicked: %v", condStr([]rm.Cond{c1}), condStr([]rm.Cond{c2}), p), nil)
					}
				}()
				r.Add("api_evaluations", 1)
				gotAll, err := list(api.WhereAll(m, mc1, mc2))
				if err != nil {
					r.Add("api_errors", 1)
					r.Distinct("api_error_classes", condClass(e.ref, []rm.Cond{c1, c2}))
				} else if setStr(gotAll) != setStr(and) {
					r.Violation("c08.api.whereall."+condClass(e.ref, []rm.Cond{c1, c2}), fmt.Sprintf("[%s] rows %s: WhereAll(%s ; %s).List = %s, conjunction gives %s", e.cfg.name, contentStr(content), condStr([]rm.Cond{c1}), condStr([]rm.Cond{c2}), setStr(gotAll), setStr(and)), nil)
				}
				gotAny, err := list(api.WhereAny(m, mc1, mc2))
				if err == nil && setStr(gotAny) != setStr(or) {
					r.Violation("c08.api.whereany."+condClass(e.ref, []rm.Cond{c1, c2}), fmt.Sprintf("[%s] rows %s: WhereAny(%s ; %s).List = %s, disjunction gives %s", e.cfg.name, contentStr(content), condStr([]rm.Cond{c1}), condStr([]rm.Cond{c2}), setStr(gotAny), setStr(or)), nil)
				}
				// the operations generated by Delete affect exactly the rows List reported
				if err == nil && (i+j)%3 == 0 {
					ops, oerr := api.WhereAll(m, mc1, mc2).Delete()
					if oerr == nil {
						s := sys.New(e.dbs)
						var load []rm.Op
						var us []string
						for u := range content {
							us = append(us, u)
						}
						sort.Strings(us)
						for _, u := range us {
							load = append(load, rm.Op{Op: "insert", Table: "T", UUID: u, Row: content[u]})
						}
						if len(load) > 0 {
							if res, err := s.TransactRef(load); err != nil || len(res) != len(load) {
								panic(fmt.Sprintf("load failed: %v %v", res, err))
							}
						}
						res, terr := s.Transact(ops)
						okRes := terr == nil
						for _, x := range res {
							if x.Error != "" {
								okRes = false
							}
						}
						if okRes {
							left := s.State().T["T"]
							deleted := map[string]bool{}
							for u := range content {
								if _, ok := left[u]; !ok {
									deleted[u] = true
								}
							}
							r.Add("api_generated_ops_executed", 1)
							if setStr(deleted) != setStr(gotAll) {
								r.Violation("c08.api.delete-ops."+condClass(e.ref, []rm.Cond{c1, c2}), fmt.Sprintf("[%s] rows %s: WhereAll(%s ; %s): List reports %s but the generated delete removed %s", e.cfg.name, contentStr(content), condStr([]rm.Cond{c1}), condStr([]rm.Cond{c2}), setStr(gotAll), setStr(deleted)), map[string]interface{}{"ops": ops})
							}
						}
					}
				}
			}()
		}
	}
}

// c08IndexSpecs: the table's index specs in look-up order (schema indexes, then client indexes); clientFrom = position of the first client index.
func (e *c08Env) indexSpecs() (specs [][]model.ColumnKey, clientFrom int) {
	var si [][]string
	if err := json.Unmarshal([]byte(e.cfg.schema), &si); err != nil {
		panic(err)
	}
	for _, cols := range si {
		var spec []model.ColumnKey
		for _, c := range cols {
			spec = append(spec, model.ColumnKey{Column: c})
		}
		specs = append(specs, spec)
	}
	clientFrom = len(specs)
	for _, ci := range e.cfg.client {
		specs = append(specs, ci.Columns)
	}
	return
}

// c08WhereModel: Where(model) = the row with the model's _uuid when the cache has it, else the rows of the first index (schema
// indexes in schema order, then client indexes in their order) that holds a row agreeing with the model on the index columns;
// Get(model) = the same over _uuid and schema indexes only; generated operations hit exactly the rows List reports.
func c08WhereModel(r *ev.Run, e *c08Env, content map[string]rm.Row, ci int) {
	tc := e.newCache(content)
	api := client.VerifNewAPI(tc)
	t := e.ref.Tables["T"]
	specs, clientFrom := e.indexSpecs()
	idxVal := func(row rm.Row, ck model.ColumnKey) string {
		c := t.Cols[ck.Column]
		v, ok := row[ck.Column]
		if !ok {
			v = c.Default()
		}
		if ck.Key != nil {
			k := rm.S(fmt.Sprint(ck.Key))
			if x, has := v.Map[k]; has {
				return x.String()
			}
			return (&rm.Col{KeyT: c.ValT, Min: 1, Max: 1}).Default().String()
		}
		return v.String()
	}
	expect := func(uuid string, fields rm.Row, useClient bool) map[string]bool {
		out := map[string]bool{}
		if _, ok := content[uuid]; ok && uuid != "" {
			out[uuid] = true
			return out
		}
		for si, spec := range specs {
			if si >= clientFrom && !useClient {
				break
			}
			for u, row := range content {
				same := true
				for _, ck := range spec {
					if idxVal(row, ck) != idxVal(fields, ck) {
						same = false
					}
				}
				if same {
					out[u] = true
				}
			}
			if len(out) > 0 {
				break
			}
		}
		return out
	}
	list := func(ca client.ConditionalAPI) (map[string]bool, error) {
		lst := reflect.New(reflect.SliceOf(e.dbs.Types["T"]))
		if err := ca.List(context.Background(), lst.Interface()); err != nil {
			return nil, err
		}
		out := map[string]bool{}
		for k := 0; k < lst.Elem().Len(); k++ {
			out[schemas.Get(lst.Elem().Index(k).Interface(), "_uuid").(string)] = true
		}
		return out, nil
	}
	uuids := []string{"", uu("8", 9)}
	for u := range content {
		uuids = append(uuids, u)
	}
	sort.Strings(uuids)
	universe := append([]rm.Row{{}}, c08Rows()...) // {} = every field at its default
	for ui, uuid := range uuids {
		for fi, fields := range universe {
			r.Add("api_evaluations", 1)
			r.Add("where_model_cases", 1)
			name := fmt.Sprintf("_uuid=%s fields=universe-row-%d", short(uuid), fi-1)
			if fi == 0 {
				name = fmt.Sprintf("_uuid=%s fields=defaults", short(uuid))
			}
			if uuid == "" {
				name = strings.Replace(name, "_uuid= ", "no _uuid, ", 1)
			}
			kind := "uuid-cached"
			if _, ok := content[uuid]; !ok {
				kind = "uuid-unknown"
				if uuid == "" {
					kind = "no-uuid"
				}
			}
			func() {
				defer func() {
					if p := recover(); p != nil {
						r.Violation("c08.where-model.panic."+cfgKind(e.cfg), fmt.Sprintf("[%s] rows %s: Where(model %s) panicked: %v", e.cfg.name, contentStr(content), name, p), nil)
					}
				}()
				m := e.mkModel(uuid, fields)
				want := expect(uuid, fields, true)
				got, err := list(api.Where(m))
				if err != nil {
					r.Violation("c08.where-model.error."+kind+"."+cfgKind(e.cfg), fmt.Sprintf("[%s] rows %s: Where(model %s).List: %v", e.cfg.name, contentStr(content), name, err), nil)
					return
				}
				if setStr(got) != setStr(want) {
					r.Violation("c08.where-model."+kind+"."+cfgKind(e.cfg), fmt.Sprintf("[%s] rows %s: Where(model %s).List = %s, the first usable index of the model gives %s", e.cfg.name, contentStr(content), name, setStr(got), setStr(want)),
						map[string]interface{}{"index_config": e.cfg.name, "content": contentStr(content), "model": name, "got": setStr(got), "want": setStr(want)})
					return
				}
				if len(want) > 0 && len(want) < len(content) {
					r.Distinct("nontrivial", "where-model/"+e.cfg.name+"/"+name+"/"+contentStr(content))
				}
				// Get: _uuid and schema indexes only
				wantGet := expect(uuid, fields, false)
				gm := e.mkModel(uuid, fields)
				gerr := api.Get(context.Background(), gm)
				gotU := ""
				if gerr == nil {
					gotU = schemas.Get(gm, "_uuid").(string)
				}
				switch {
				case len(wantGet) == 0 && gerr == nil:
					r.Violation("c08.get-model.found-nothing-expected."+kind+"."+cfgKind(e.cfg), fmt.Sprintf("[%s] rows %s: Get(model %s) returns row %s, no _uuid or schema index leads to a row", e.cfg.name, contentStr(content), name, short(gotU)), nil)
				case len(wantGet) > 0 && (gerr != nil || !wantGet[gotU]):
					r.Violation("c08.get-model."+kind+"."+cfgKind(e.cfg), fmt.Sprintf("[%s] rows %s: Get(model %s) returns %s (%v), expected one of %s", e.cfg.name, contentStr(content), name, short(gotU), gerr, setStr(wantGet)), nil)
				case gerr == nil && sys.FromModel(t, gm).String() != content[gotU].String():
					r.Violation("c08.get-model.content."+kind+"."+cfgKind(e.cfg), fmt.Sprintf("[%s] rows %s: Get(model %s) fills the model with %s, the row is %s", e.cfg.name, contentStr(content), name, sys.FromModel(t, gm), content[gotU]), nil)
				}
				// the generated delete removes exactly the rows List reported (when the cache had a match)
				if (ui+fi+ci)%2 == 0 && len(got) > 0 {
					ops, oerr := api.Where(e.mkModel(uuid, fields)).Delete()
					if oerr != nil {
						r.Violation("c08.where-model.delete-error."+kind+"."+cfgKind(e.cfg), fmt.Sprintf("[%s] rows %s: Where(model %s).Delete: %v", e.cfg.name, contentStr(content), name, oerr), nil)
						return
					}
					s := sys.New(e.dbs)
					var load []rm.Op
					var us []string
					for u := range content {
						us = append(us, u)
					}
					sort.Strings(us)
					for _, u := range us {
						load = append(load, rm.Op{Op: "insert", Table: "T", UUID: u, Row: content[u]})
					}
					if res, err := s.TransactRef(load); err != nil || len(res) != len(load) {
						panic(fmt.Sprintf("load failed: %v %v", res, err))
					}
					res, terr := s.Transact(ops)
					okRes := terr == nil
					for _, x := range res {
						if x.Error != "" {
							okRes = false
						}
					}
					if okRes {
						left := s.State().T["T"]
						deleted := map[string]bool{}
						for u := range content {
							if _, ok := left[u]; !ok {
								deleted[u] = true
							}
						}
						r.Add("api_generated_ops_executed", 1)
						if setStr(deleted) != setStr(got) {
							r.Violation("c08.where-model.delete-ops."+kind+"."+cfgKind(e.cfg), fmt.Sprintf("[%s] rows %s: Where(model %s): List reports %s but the generated delete removed %s", e.cfg.name, contentStr(content), name, setStr(got), setStr(deleted)), map[string]interface{}{"ops": ops})
						}
					}
				}
			}()
		}
	}
}
