package checks

// C09 — model <-> row mapping is lossless for every column type.

import (
	"encoding/json"
	"fmt"
	"math"
	"reflect"
	"strings"

	"github.com/ovn-org/libovsdb/model"
	"github.com/ovn-org/libovsdb/ovsdb"

	"verif/mc/ev"
	rm "verif/mc/refmodel"
	"verif/mc/schemas"
	"verif/mc/sys"
)

func init() { register("C09", "exploration", runC09) }

// exact rendering of a native value (element order irrelevant for sets, nil == empty,
// but an unset optional differs from a pointer to the zero value)
func exactNative(x interface{}) string {
	v := reflect.ValueOf(x)
	if v.IsValid() && v.Kind() == reflect.Float64 {
		return fmt.Sprintf("r%v", math.Float64bits(v.Float()+0))
	}
	if v.IsValid() && v.Kind() == reflect.Ptr && !v.IsNil() && v.Elem().Kind() == reflect.Float64 {
		return fmt.Sprintf("[r%v]", math.Float64bits(v.Elem().Float()+0))
	}
	return canonNativeStr(x)
}

// sysFromNative renders a native value of column c canonically: sets unordered, nil == empty, "" == zero
// uuid, -0 == 0; an unset optional differs from a pointer to the zero value.
func sysFromNative(c *rm.Col, x interface{}) string { return sys.FromNative(c, x).String() }

func runC09(r *ev.Run) {
	nset, nkeys := 4, 3
	if r.Tier == "thorough" {
		nset, nkeys = 5, 4
	}
	r.SetDeadline(20 * 60 * 1e9)
	r.Set("rule", "case = (column type, value) converted model -> NewRow -> JSON -> Row -> GetRowData on a fresh model, in three row-building modes (default, explicit field list, all columns); plus pre-filled sentinel models for absent columns, extreme integers and reals, and (column type, wrong Go type) pairs that must be rejected; non-trivial = non-default value")
	uuid := tU[0]
	// the all-types table, then a table with a map column for every (key type, value type) pair and a set of booleans
	envs := []*typEnv{newTypEnv(), newMapZooEnv()}
	for _, e := range envs {
		for _, cn := range e.t.ColNames() {
			c := e.t.Cols[cn]
			shape := colShape(c)
			uni := orderedUniverse(c, nset, nkeys)
			// extreme numbers
			if c.KeyT == "integer" && !c.IsMap {
				for _, n := range []int64{1 << 53, -(1 << 53), 1<<53 + 1, -(1<<53 + 1), math.MaxInt64, math.MinInt64, 1<<31 + 7} {
					uni = append(uni, ov{Set: []rm.Atom{rm.I(n)}})
				}
			}
			if c.KeyT == "real" && !c.IsMap {
				for _, f := range []float64{math.Copysign(0, -1), 1e308, 5e-324, -1e-300, 1.0 / 3, 123456789.125} {
					uni = append(uni, ov{Set: []rm.Atom{{K: 'r', R: f}}})
				}
			}
			for vi, v := range uni {
				for _, mode := range []string{"default", "explicit-field"} {
					r.Add("evaluations", 1)
					cse := map[string]interface{}{"column": cn, "type": shape, "value": v.String(), "mode": mode}
					func() {
						defer func() {
							if p := recover(); p != nil {
								r.Violation("c09.panic."+shape, fmt.Sprintf("%s (%s) value %s: panic %v", cn, shape, v, p), cse)
							}
						}()
						m := e.dbs.NewModel("T")
						schemas.Set(m, "_uuid", uuid)
						native := v.native(c, e.fieldType(cn))
						schemas.Set(m, cn, native)
						want := sysFromNative(c, native)
						snap := snapshot(m)
						info, err := e.dbm.NewModelInfo(m)
						if err != nil {
							panic(err)
						}
						var row ovsdb.Row
						if mode == "default" {
							row, err = e.dbm.Mapper.NewRow(info)
						} else {
							fp := reflect.ValueOf(m).Elem().FieldByName(schemas.FieldName(cn)).Addr().Interface()
							row, err = e.dbm.Mapper.NewRow(info, fp)
						}
						if err != nil {
							r.Violation("c09.newrow-error."+shape, fmt.Sprintf("%s (%s) value %s: NewRow: %v", cn, shape, v, err), cse)
							return
						}
						if snapshot(m) != snap {
							r.Violation("c09.newrow-mutates-model."+shape, fmt.Sprintf("%s (%s) value %s: NewRow changed the model", cn, shape, v), cse)
						}
						b, err := json.Marshal(row)
						if err != nil {
							r.Violation("c09.row-encode-error."+shape, fmt.Sprintf("%s (%s) value %s: %v", cn, shape, v, err), cse)
							return
						}
						cse["wire"] = string(b)
						var wire ovsdb.Row
						if err := json.Unmarshal(b, &wire); err != nil {
							r.Violation("c09.row-decode-error."+shape, fmt.Sprintf("%s (%s) value %s: wire %s: %v", cn, shape, v, b, err), cse)
							return
						}
						back, err := model.CreateModel(e.dbm, "T", &wire, uuid)
						if err != nil {
							r.Violation("c09.getrowdata-error."+shape, fmt.Sprintf("%s (%s) value %s: wire %s: %v", cn, shape, v, b, err), cse)
							return
						}
						got := sysFromNative(c, schemas.Get(back, cn))
						if got != want {
							sig := "c09.lossy." + shape
							if c.KeyT == "integer" && len(v.Set) == 1 && (v.Set[0].I > 1<<53 || v.Set[0].I < -(1<<53)) {
								sig = "c09.lossy.integer-beyond-2^53." + shapeClass(c)
							}
							r.Violation(sig, fmt.Sprintf("%s (%s): value %s went on the wire as %s and came back as %s (%s vs %s)", cn, shape, v, b, canonNativeStr(schemas.Get(back, cn)), want, got), cse)
						}
						// every other mapped field keeps its (default) value
						for _, oc := range e.t.ColNames() {
							if oc != cn && canonNativeStr(schemas.Get(back, oc)) != canonNativeStr(schemas.Get(e.dbs.NewModel("T"), oc)) {
								r.Violation("c09.other-column."+shape, fmt.Sprintf("%s: round trip changed column %s", cn, oc), cse)
							}
						}
						if !v.canon().Equal(c.Default()) {
							r.Distinct("nontrivial", fmt.Sprintf("%s/%d", cn, vi))
						}
						if vi == 2 && mode == "default" {
							r.Sample(cse)
						}
						// columns absent from a row leave the field untouched
						if mode == "default" {
							sent := e.dbs.NewModel("T")
							for _, oc := range e.t.ColNames() {
								u2 := orderedUniverse(e.t.Cols[oc], 2, 1)
								schemas.Set(sent, oc, u2[len(u2)-1].native(e.t.Cols[oc], e.fieldType(oc)))
							}
							before := map[string]string{}
							for _, oc := range e.t.ColNames() {
								before[oc] = sysFromNative(e.t.Cols[oc], schemas.Get(sent, oc))
							}
							sinfo, _ := e.dbm.NewModelInfo(sent)
							only := ovsdb.Row{}
							if x, ok := wire[cn]; ok {
								only[cn] = x
							}
							if err := e.dbm.Mapper.GetRowData(&only, sinfo); err != nil {
								r.Violation("c09.getrowdata-error."+shape, fmt.Sprintf("%s: %v", cn, err), cse)
								return
							}
							for _, oc := range e.t.ColNames() {
								_, present := only[oc]
								if !present && sysFromNative(e.t.Cols[oc], schemas.Get(sent, oc)) != before[oc] {
									r.Violation("c09.absent-column-touched."+colShape(e.t.Cols[oc]), fmt.Sprintf("row with only %v changed field %s from %s to %s", only, oc, before[oc], sysFromNative(e.t.Cols[oc], schemas.Get(sent, oc))), cse)
								}
							}
							r.Add("sentinel_checks", 1)
						}
					}()
				}
			}
		}
	}
	e := envs[0]
	// a Go type that does not match the column type is rejected, never converted
	cands := []reflect.Type{reflect.TypeOf(0), reflect.TypeOf(""), reflect.TypeOf(0.0), reflect.TypeOf(true), reflect.TypeOf(int64(0)), reflect.TypeOf(float32(0)),
		reflect.TypeOf([]string{}), reflect.TypeOf([]int{}), reflect.TypeOf([]float64{}), reflect.TypeOf([]bool{}), reflect.TypeOf([1]string{}),
		reflect.TypeOf((*string)(nil)), reflect.TypeOf((*int)(nil)), reflect.TypeOf((*float64)(nil)), reflect.TypeOf((*bool)(nil)),
		reflect.TypeOf(map[string]string{}), reflect.TypeOf(map[string]int{}), reflect.TypeOf(map[int]string{}), reflect.TypeOf(map[string]interface{}{}), reflect.TypeOf([]interface{}{}),
		reflect.TypeOf(ovsdb.UUID{}), reflect.TypeOf([]ovsdb.UUID{}), reflect.TypeOf(ovsdb.OvsSet{}), reflect.TypeOf(ovsdb.OvsMap{})}
	for _, cn := range e.t.ColNames() {
		c := e.t.Cols[cn]
		right := e.fieldType(cn)
		for _, ct := range cands {
			if ct == right {
				continue
			}
			r.Add("evaluations", 1)
			r.Add("rejection_cases", 1)
			r.Distinct("nontrivial", "reject/"+cn+"/"+ct.String())
			func() {
				cse := map[string]interface{}{"column": cn, "type": colShape(c), "go_type": ct.String()}
				defer func() {
					if p := recover(); p != nil {
						r.Violation("c09.reject.panic."+colShape(c), fmt.Sprintf("%s with Go type %s: panic %v", cn, ct, p), cse)
					}
				}()
				st := reflect.StructOf([]reflect.StructField{
					{Name: "UUID", Type: reflect.TypeOf(""), Tag: `ovsdb:"_uuid"`},
					{Name: "F", Type: ct, Tag: reflect.StructTag(fmt.Sprintf(`ovsdb:"%s"`, cn))},
				})
				cm, err := model.NewClientDBModel("TYP", map[string]model.Model{"T": reflect.New(st).Interface()})
				if err != nil {
					return // rejected even earlier
				}
				if _, errs := model.NewDatabaseModel(e.dbs.Schema, cm); len(errs) == 0 {
					r.Violation("c09.reject.model-accepted."+colShape(c), fmt.Sprintf("a model mapping column %s (%s, native %s) to a field of type %s is accepted", cn, colShape(c), right, ct), cse)
				}
				// SetField / NewMutation / NewCondition with a value of the wrong type
				m := e.dbs.NewModel("T")
				info, _ := e.dbm.NewModelInfo(m)
				wrong := reflect.Zero(ct).Interface()
				if err := info.SetField(cn, wrong); err == nil {
					r.Violation("c09.reject.setfield."+colShape(c), fmt.Sprintf("SetField(%s) accepts a %s", cn, ct), cse)
				}
				fp := reflect.ValueOf(m).Elem().FieldByName(schemas.FieldName(cn)).Addr().Interface()
				if _, err := e.dbm.Mapper.NewCondition(info, fp, ovsdb.ConditionEqual, wrong); err == nil {
					r.Violation("c09.reject.condition."+colShape(c), fmt.Sprintf("NewCondition on %s accepts a %s", cn, ct), cse)
				}
			}()
		}
	}
	r.Set("distinct_nontrivial", r.DistinctCount("nontrivial"))
}

// newMapZooEnv: one map column per (key type, value type) pair of the five atomic types, and a set of booleans.
func newMapZooEnv() *typEnv {
	ts := []string{"integer", "real", "boolean", "string", "uuid"}
	cols := []string{`"sbo":{"type":{"key":{"type":"boolean"},"min":0,"max":"unlimited"}}`}
	for _, k := range ts {
		for _, v := range ts {
			cols = append(cols, fmt.Sprintf(`"m%c%c":{"type":{"key":{"type":"%s"},"value":{"type":"%s"},"min":0,"max":"unlimited"}}`, k[0], v[0], k, v))
		}
	}
	dbs := schemas.MustBuild(`{"name":"ZOO","version":"1.0.0","tables":{"T":{"columns":{`+strings.Join(cols, ",")+`}}}}`, nil)
	ref := rm.FromOvsdb(dbs.Schema)
	return &typEnv{dbs: dbs, dbm: dbs.DBModel(), ref: ref, t: ref.Tables["T"]}
}
