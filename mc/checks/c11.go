package checks

// C11 — aggregating successive updates equals the single net update.

import (
	"fmt"
	"strings"

	"github.com/ovn-org/libovsdb/model"
	"github.com/ovn-org/libovsdb/ovsdb"
	"github.com/ovn-org/libovsdb/updates"

	"verif/mc/ev"
	"verif/mc/par"
	rm "verif/mc/refmodel"
	"verif/mc/sys"
)

func init() { register("C11", "model_checking", runC11) }

type c11Op struct {
	name string
	op   rm.Op
}

// alphabet of operations on row uuid for column c (plus column "s" as a second, independent column)
func c11Alphabet(e *typEnv, c *rm.Col, uuid string, level int) []c11Op {
	var a []c11Op
	add := func(name string, op rm.Op) { a = append(a, c11Op{name, op}) }
	uni := c03Universe(c, level)
	full := uni
	if len(uni) > 3+level {
		uni = uni[:3+level]
	}
	for i, v := range uni {
		add(fmt.Sprintf("insert{%s:#%d}", c.Name, i), opInsert("T", uuid, rm.Row{c.Name: v, "s": rm.SetOf(rm.S("orig"))}))
		add(fmt.Sprintf("update{%s:=#%d}", c.Name, i), opUpdate("T", uuid, rm.Row{c.Name: v}))
	}
	add("update{s:=x}", opUpdate("T", uuid, rm.Row{"s": rm.SetOf(rm.S("x"))}))
	add("update{s:=orig}", opUpdate("T", uuid, rm.Row{"s": rm.SetOf(rm.S("orig"))}))
	add(fmt.Sprintf("update{%s:=#1,s:=y}", c.Name), opUpdate("T", uuid, rm.Row{c.Name: uni[1%len(uni)], "s": rm.SetOf(rm.S("y"))}))
	switch {
	case c.IsMap:
		ks := uni[len(uni)-1].Keys()
		if len(ks) == 0 {
			ks = uni[1].Keys()
		}
		for i, v := range uni[1:] {
			add(fmt.Sprintf("mutate{%s insert #%d}", c.Name, i+1), opMutate("T", uuid, c.Name, "insert", v))
			add(fmt.Sprintf("mutate{%s delete #%d}", c.Name, i+1), opMutate("T", uuid, c.Name, "delete", v))
			add(fmt.Sprintf("mutate{%s delete keys of #%d}", c.Name, i+1), opMutate("T", uuid, c.Name, "delete", rm.SetOf(v.Keys()...)))
		}
		if len(uni) >= 3 {
			mmm := func(name string, muts ...rm.Mut) {
				add(fmt.Sprintf("mutate{%s %s}", c.Name, name), rm.Op{Op: "mutate", Table: "T", Where: whereUUID(uuid), Muts: muts})
			}
			insM := func(v rm.Value) rm.Mut { return rm.Mut{Col: c.Name, Mutator: "insert", Val: v} }
			delM := func(v rm.Value) rm.Mut { return rm.Mut{Col: c.Name, Mutator: "delete", Val: v} }
			mmm("insert #1; delete keys of #1", insM(uni[1]), delM(rm.SetOf(uni[1].Keys()...)))
			mmm("delete keys of #1; insert #2", delM(rm.SetOf(uni[1].Keys()...)), insM(uni[2]))
			mmm("insert #2; delete #1; insert #1", insM(uni[2]), delM(uni[1]), insM(uni[1]))
			mmm("insert #1; insert other key", insM(uni[1]), insM(full[len(full)-1]))
			mmm("insert other key; insert #1; delete keys of #1", insM(full[len(full)-1]), insM(uni[1]), delM(rm.SetOf(uni[1].Keys()...)))
		}
	case c.Scalar() && (c.KeyT == "integer" || c.KeyT == "real") && len(c.Enum) == 0: // enums take no arithmetic (and would leave the enumeration)
		one := rm.SetOf(rm.I(1))
		two := rm.SetOf(rm.I(2))
		if c.KeyT == "real" {
			one, two = rm.SetOf(rm.R(1.5)), rm.SetOf(rm.R(3))
		}
		add(fmt.Sprintf("mutate{%s+=1}", c.Name), opMutate("T", uuid, c.Name, "+=", one))
		add(fmt.Sprintf("mutate{%s-=1}", c.Name), opMutate("T", uuid, c.Name, "-=", one))
		add(fmt.Sprintf("mutate{%s+=2}", c.Name), opMutate("T", uuid, c.Name, "+=", two))
		add(fmt.Sprintf("mutate{%s*=2}", c.Name), opMutate("T", uuid, c.Name, "*=", two))
	case !c.Scalar() && c.Max != 1:
		els := uni[len(uni)-1].Set
		for i, el := range els {
			add(fmt.Sprintf("mutate{%s insert e%d}", c.Name, i), opMutate("T", uuid, c.Name, "insert", rm.SetOf(el)))
			add(fmt.Sprintf("mutate{%s delete e%d}", c.Name, i), opMutate("T", uuid, c.Name, "delete", rm.SetOf(el)))
		}
		add(fmt.Sprintf("mutate{%s insert all}", c.Name), opMutate("T", uuid, c.Name, "insert", rm.SetOf(els...)))
		add(fmt.Sprintf("mutate{%s delete all}", c.Name), opMutate("T", uuid, c.Name, "delete", rm.SetOf(els...)))
		// several mutations of the column in ONE mutate operation (folded inside the operation before it is accumulated)
		mm := func(name string, muts ...rm.Mut) {
			add(fmt.Sprintf("mutate{%s %s}", c.Name, name), rm.Op{Op: "mutate", Table: "T", Where: whereUUID(uuid), Muts: muts})
		}
		ins := func(v rm.Value) rm.Mut { return rm.Mut{Col: c.Name, Mutator: "insert", Val: v} }
		del := func(v rm.Value) rm.Mut { return rm.Mut{Col: c.Name, Mutator: "delete", Val: v} }
		els = full[len(full)-1].Set // the multi-mutation operations need two elements at least
		if len(els) >= 2 {
			mm("insert all; delete e0", ins(rm.SetOf(els...)), del(rm.SetOf(els[0])))
			mm("insert all; delete last", ins(rm.SetOf(els...)), del(rm.SetOf(els[len(els)-1])))
			mm("delete e0; insert e0", del(rm.SetOf(els[0])), ins(rm.SetOf(els[0])))
			mm("insert e0; insert e1; delete e0", ins(rm.SetOf(els[0])), ins(rm.SetOf(els[1])), del(rm.SetOf(els[0])))
			mm("delete all; insert e1", del(rm.SetOf(els...)), ins(rm.SetOf(els[1])))
		}
	}
	add("delete", opDelete("T", uuid))
	return a
}

func (e *typEnv) modelOf(uuid string, row rm.Row) model.Model {
	if row == nil {
		return nil
	}
	// as in the database: a column holding its default is not written into the model (its map/slice/pointer stays nil)
	nd := rm.Row{}
	for cn, v := range row {
		if c := e.t.Cols[cn]; c != nil && v.Equal(c.Default()) {
			continue
		}
		nd[cn] = v
	}
	or := sys.ToOvsRow(e.t, nd)
	m, err := model.CreateModel(e.dbm, "T", &or, uuid)
	if err != nil {
		panic(err)
	}
	return m
}

func (e *typEnv) rowOfModel(m model.Model) rm.Row {
	if m == nil {
		return nil
	}
	return sys.FromModel(e.t, m)
}

func (e *typEnv) rowOfOvs(r *ovsdb.Row) (rm.Row, error) {
	if r == nil {
		return nil, nil
	}
	var wire ovsdb.Row
	if err := jsonRoundTrip(*r, &wire); err != nil {
		return nil, err
	}
	row, err := sys.FromOvsRow(e.t, wire)
	if err != nil {
		return nil, err
	}
	delete(row, "_uuid")
	full := rm.Row{}
	for cn, c := range e.t.Cols {
		if v, ok := row[cn]; ok {
			full[cn] = v
		} else {
			full[cn] = c.Default()
		}
	}
	return full, nil
}

type c11Obs struct {
	present  bool
	old, new model.Model
	ru       ovsdb.RowUpdate2
	getModel model.Model
	getRow   *ovsdb.Row
}

func c11Observe(mu updates.ModelUpdates, uuid string) c11Obs {
	var o c11Obs
	for _, t := range mu.GetUpdatedTables() {
		_ = mu.ForEachModelUpdate(t, func(u string, old, new model.Model) error {
			if u == uuid {
				o.present = true
				o.old, o.new = old, new
			}
			return nil
		})
		_ = mu.ForEachRowUpdate(t, func(u string, ru ovsdb.RowUpdate2) error {
			if u == uuid {
				o.ru = ru
			}
			return nil
		})
	}
	o.getModel = mu.GetModel("T", uuid)
	o.getRow = mu.GetRow("T", uuid)
	return o
}

func rowStr(r rm.Row) string {
	if r == nil {
		return "<absent>"
	}
	return r.String()
}

// c11Check compares an aggregated update with the net change first -> last. Returns (kind, message).
func c11Check(e *typEnv, o c11Obs, first, last rm.Row) (string, string) {
	same := (first == nil && last == nil) || (first != nil && last != nil && first.String() == last.String())
	if same {
		if o.present {
			return "not-cancelled", fmt.Sprintf("row ends as it began (%s) but an update remains: old=%s new=%s ru=%s", rowStr(first), rowStr(e.rowOfModel(o.old)), rowStr(e.rowOfModel(o.new)), ev.J(o.ru))
		}
		return "", ""
	}
	if !o.present {
		return "lost", fmt.Sprintf("net change %s -> %s but no update is recorded", rowStr(first), rowStr(last))
	}
	if rowStr(e.rowOfModel(o.old)) != rowStr(first) {
		return "old-model", fmt.Sprintf("accumulated old model %s, first old value %s", rowStr(e.rowOfModel(o.old)), rowStr(first))
	}
	if rowStr(e.rowOfModel(o.new)) != rowStr(last) {
		return "new-model", fmt.Sprintf("accumulated new model %s, last new value %s", rowStr(e.rowOfModel(o.new)), rowStr(last))
	}
	if rowStr(e.rowOfModel(o.getModel)) != rowStr(last) {
		return "getmodel", fmt.Sprintf("GetModel gives %s, last new value %s", rowStr(e.rowOfModel(o.getModel)), rowStr(last))
	}
	gr, err := e.rowOfOvs(o.getRow)
	if err != nil || rowStr(gr) != rowStr(last) {
		return "getrow", fmt.Sprintf("GetRow gives %s (%v), last new value %s", rowStr(gr), err, rowStr(last))
	}
	ru := o.ru
	switch {
	case first == nil: // one insert of the final row
		if ru.Insert == nil || ru.Modify != nil || ru.Delete != nil {
			return "insert-shape", fmt.Sprintf("insert followed by changes must be one insert, got %s", ev.J(ru))
		}
		ir, err := e.rowOfOvs(ru.Insert)
		if err != nil || rowStr(ir) != rowStr(last) {
			return "insert-row", fmt.Sprintf("insert row %s (%v), final row %s", rowStr(ir), err, rowStr(last))
		}
	case last == nil: // one delete of the original row
		if ru.Delete == nil || ru.Insert != nil || ru.Modify != nil {
			return "delete-shape", fmt.Sprintf("changes followed by delete must be one delete, got %s", ev.J(ru))
		}
		or, err := e.rowOfOvs(ru.Old)
		if err != nil || rowStr(or) != rowStr(first) {
			return "delete-old", fmt.Sprintf("delete carries old row %s (%v), original row %s", rowStr(or), err, rowStr(first))
		}
	default:
		if ru.Modify == nil || ru.Insert != nil || ru.Delete != nil {
			return "modify-shape", fmt.Sprintf("net modification must be one modify, got %s", ev.J(ru))
		}
		var wire ovsdb.Row
		if err := jsonRoundTrip(*ru.Modify, &wire); err != nil {
			return "modify-encoding", err.Error()
		}
		diff, err := sys.FromOvsRow(e.t, wire)
		if err != nil {
			return "modify-encoding", err.Error()
		}
		got := first.Clone()
		for cn, d := range diff {
			got[cn] = applyUpdate2(e.t.Cols[cn], got[cn], d)
		}
		if got.String() != last.String() {
			return "modify-apply", fmt.Sprintf("modify %s applied to the first old value %s gives %s, last new value is %s", ev.J(wire), rowStr(first), rowStr(got), rowStr(last))
		}
		for cn := range diff {
			if first[cn].Equal(last[cn]) {
				return "modify-unchanged-column", fmt.Sprintf("modify carries column %s which ends as it began", cn)
			}
		}
		or, err := e.rowOfOvs(ru.Old)
		if err != nil || rowStr(or) != rowStr(first) {
			return "modify-old", fmt.Sprintf("accumulated Old row %s, first old value %s", rowStr(or), rowStr(first))
		}
		nr, err := e.rowOfOvs(ru.New)
		if err != nil || rowStr(nr) != rowStr(last) {
			return "modify-new", fmt.Sprintf("accumulated New row %s, last new value %s", rowStr(nr), rowStr(last))
		}
	}
	return "", ""
}

func runC11(r *ev.Run) {
	level, maxLen := 0, 3
	if r.Tier == "thorough" {
		level, maxLen = 1, 4
		r.SetDeadline(30 * 60 * 1e9)
	} else {
		r.SetDeadline(150 * 1e9)
	}
	r.Set("rule", "state = (row content before, sequence of operations so far); transition = one more insert/update/mutate/delete on the row, executed with ModelUpdates.AddOperation on one accumulator and, separately, as its own update merged with Merge; every prefix of length >= 2 is compared with the reference model's net change; non-trivial = sequence whose net effect differs from both 'nothing' and its last operation alone")
	e := newTypEnv()
	plain := stripIndexes(stripSchema(e.ref))
	uuid := tU[0]
	cols := e.t.ColNames()
	par.For(len(cols), r.Expired, func(ci int) {
		c := e.t.Cols[cols[ci]]
		if !c.Mutable {
			return
		}
		alpha := c11Alphabet(e, c, uuid, level)
		uni := c03Universe(c, level)
		// start states: absent, or present with one of the first values
		starts := []rm.Row{nil}
		for _, v := range uni[:2] {
			row := rm.Row{}
			for cn, cc := range e.t.Cols {
				row[cn] = cc.Default()
			}
			row[c.Name] = v
			row["s"] = rm.SetOf(rm.S("orig"))
			starts = append(starts, row)
		}
		for si, start := range starts {
			var rec func(seq []int, cur rm.Row, names []string)
			rec = func(seq []int, cur rm.Row, names []string) {
				if len(seq) >= 1 { // a single operation too: one mutate operation can carry several mutations of the column
					r.Add("transitions", 1)
					r.Distinct("states", fmt.Sprintf("%s/%d/%v", c.Name, si, seq))
					// replay the whole sequence in both aggregation styles
					for _, style := range []string{"addoperation", "merge"} {
						acc := updates.ModelUpdates{}
						curRow := start
						failed := ""
						func() {
							defer func() {
								if p := recover(); p != nil {
									failed = fmt.Sprintf("panic: %v", p)
								}
							}()
							for _, ai := range seq {
								op := alpha[ai].op
								var wireOp ovsdb.Operation
								if err := jsonRoundTrip(sys.ToOvsOp(e.ref, op), &wireOp); err != nil {
									panic(err)
								}
								curModel := e.modelOf(uuid, curRow)
								var err error
								if style == "addoperation" {
									err = acc.AddOperation(e.dbm, "T", uuid, curModel, &wireOp)
								} else {
									one := updates.ModelUpdates{}
									if err = one.AddOperation(e.dbm, "T", uuid, curModel, &wireOp); err == nil {
										err = acc.Merge(e.dbm, one)
									}
								}
								if err != nil {
									failed = "error: " + err.Error()
									return
								}
								db := rm.NewDB(plain)
								if curRow != nil {
									db.T["T"][uuid] = curRow.Clone()
								}
								out := db.Transact([]rm.Op{op})
								curRow = out.New.T["T"][uuid]
							}
						}()
						cse := map[string]interface{}{"column": c.Name, "type": colShape(c), "start": rowStr(start), "sequence": names, "style": style}
						if strings.HasPrefix(failed, "panic") {
							r.Violation("c11.panic."+shapeClass(c), fmt.Sprintf("%s start=%s seq=%v (%s): %s", c.Name, rowStr(start), names, style, failed), cse)
							continue
						}
						if failed != "" {
							r.Add("impl_errors", 1)
							r.Distinct("impl_error_kinds", failed)
							// the one refusal that is tolerated: sequences the merge does not implement (insert after delete of the same row,
							// see the C03 known finding) are refused as a whole; any other error on a sequence the reference executes is reported
							if !strings.Contains(failed, "sequence of updates not supported") {
								r.Violation("c11.error."+colShape(c)+"."+style, fmt.Sprintf("%s (%s) start=%s seq=%v [%s]: %s", c.Name, colShape(c), rowStr(start), names, style, failed), cse)
							}
							continue
						}
						if kind, msg := c11Check(e, c11Observe(acc, uuid), start, cur); kind != "" {
							r.Violation("c11."+kind+"."+colShape(c)+"."+style, fmt.Sprintf("%s (%s) start=%s seq=%v [%s]: %s", c.Name, colShape(c), rowStr(start), names, style, msg), cse)
						}
					}
					if rowStr(cur) != rowStr(start) {
						r.Distinct("nontrivial", fmt.Sprintf("%s/%d/%v", c.Name, si, seq))
					}
					if len(seq) == 3 && seq[0] == 1 && seq[1] == len(alpha)-3 {
						r.Sample(map[string]interface{}{"column": c.Name, "start": rowStr(start), "sequence": names, "end": rowStr(cur)})
					}
				}
				if len(seq) == maxLen || r.Expired() {
					return
				}
				for ai, a := range alpha {
					if (a.op.Op == "insert") != (cur == nil) {
						continue // insert needs an absent row, everything else a present one
					}
					db := rm.NewDB(plain)
					if cur != nil {
						db.T["T"][uuid] = cur.Clone()
					}
					out := db.Transact([]rm.Op{a.op})
					if !out.Accepted() {
						continue
					}
					rec(append(append([]int{}, seq...), ai), out.New.T["T"][uuid], append(append([]string{}, names...), a.name))
				}
			}
			rec(nil, start, nil)
		}
	})
	r.Set("states", r.DistinctCount("states"))
	r.Set("traces_validated_against_impl", r.Get("transitions"))
	r.Set("distinct_nontrivial", r.DistinctCount("nontrivial"))
	r.Set("evaluations", r.Get("transitions"))
	r.Set("max_depth", maxLen)
	r.Set("impl_error_kind_list", r.DistinctKeys("impl_error_kinds"))
}
