package checks

// C10 — a modify difference, applied to the old value, gives the new value.

import (
	"fmt"
	"reflect"

	"github.com/ovn-org/libovsdb/mapper"
	"github.com/ovn-org/libovsdb/model"
	"github.com/ovn-org/libovsdb/ovsdb"
	"github.com/ovn-org/libovsdb/updates"

	"verif/mc/ev"
	"verif/mc/par"
	rm "verif/mc/refmodel"
	"verif/mc/schemas"
	"verif/mc/sys"
)

func init() { register("C10", "exploration", runC10) }

type typEnv struct {
	dbs *schemas.DB
	dbm model.DatabaseModel
	ref *rm.Schema
	t   *rm.Table
}

func newTypEnv() *typEnv {
	dbs := schemas.MustBuild(c03Schema, nil)
	ref := rm.FromOvsdb(dbs.Schema)
	return &typEnv{dbs: dbs, dbm: dbs.DBModel(), ref: ref, t: ref.Tables["T"]}
}

func (e *typEnv) fieldType(col string) reflect.Type {
	f, _ := e.dbs.Types["T"].Elem().FieldByName(schemas.FieldName(col))
	return f.Type
}

// model with one column set (other columns carry a fixed non-default filler so that aliasing shows)
func (e *typEnv) mkModel(uuid, col string, v ov) model.Model {
	m := e.dbs.NewModel("T")
	schemas.Set(m, "_uuid", uuid)
	schemas.Set(m, "s", "filler")
	schemas.Set(m, "ss", []string{"f1", "f2"})
	schemas.Set(m, "mss", map[string]string{"fk": "fv"})
	schemas.Set(m, col, v.native(e.t.Cols[col], e.fieldType(col)))
	return m
}

// applyUpdate2 is the peer rule of ovsdb-server.7 for one column.
func applyUpdate2(c *rm.Col, v, d rm.Value) rm.Value {
	switch {
	case c.IsMap:
		n := v.Clone()
		for k, x := range d.Map {
			if y, ok := n.Map[k]; ok && y == x {
				delete(n.Map, k)
			} else {
				n.Map[k] = x
			}
		}
		return n
	case c.Max == 1:
		return d
	}
	var out []rm.Atom
	for _, a := range v.Set {
		if !d.Has(a) {
			out = append(out, a)
		}
	}
	for _, a := range d.Set {
		if !v.Has(a) {
			out = append(out, a)
		}
	}
	return rm.SetOf(out...)
}

func modifyOf(mu updates.ModelUpdates, table, uuid string) (*ovsdb.Row, bool) {
	var mod *ovsdb.Row
	found := false
	for _, t := range mu.GetUpdatedTables() {
		if t != table {
			continue
		}
		_ = mu.ForEachRowUpdate(t, func(u string, ru ovsdb.RowUpdate2) error {
			if u == uuid {
				found = true
				mod = ru.Modify
			}
			return nil
		})
	}
	return mod, found
}

func runC10(r *ev.Run) {
	nset, nkeys := 4, 3
	if r.Tier == "thorough" {
		nset, nkeys = 5, 4
		r.SetDeadline(30 * 60 * 1e9)
	} else {
		r.SetDeadline(150 * 1e9)
	}
	r.Set("rule", "case = (column type, value a, value b) with sets in every element order of every subset of the universe, maps over keys x {absent,v1,v2}, optionals {unset, v1, v2, pointer to zero}, atoms {default, v1, v2}; the difference is computed with ModelUpdates.AddOperation(update), sent through JSON and applied with AddRowUpdate2(Modify); plus (value, arbitrary difference) pairs for the peer rule; non-trivial = a differs from b as a set")
	e := newTypEnv()
	uuid := tU[0]
	cols := e.t.ColNames()
	par.For(len(cols), r.Expired, func(ci int) {
		cn := cols[ci]
		c := e.t.Cols[cn]
		if !c.Mutable {
			return
		}
		shape := colShape(c)
		uni := orderedUniverse(c, nset, nkeys)
		for ai, a := range uni {
			for bi, b := range uni {
				if r.Expired() {
					return
				}
				r.Add("evaluations", 1)
				equal := a.canon().Equal(b.canon())
				if !equal {
					r.Distinct("nontrivial", fmt.Sprintf("%s/%d/%d", cn, ai, bi))
				}
				cse := map[string]interface{}{"column": cn, "type": shape, "a": a.String(), "b": b.String()}
				if ai == 1 && bi == 2 {
					r.Sample(cse)
				}
				func() {
					defer func() {
						if p := recover(); p != nil {
							r.Violation("c10.panic."+shapeClass(c), fmt.Sprintf("%s (%s): a=%s b=%s: panic %v", cn, shape, a, b, p), cse)
						}
					}()
					// --- compute the difference a -> b
					A := e.mkModel(uuid, cn, a)
					snapA := snapshot(A)
					op := ovsdb.Operation{Op: "update", Table: "T", Row: ovsdb.Row{cn: b.ovs(c)}}
					var opWire ovsdb.Operation
					if err := jsonRoundTrip(op, &opWire); err != nil {
						panic(err)
					}
					snapOp := fmt.Sprintf("%#v", opWire.Row[cn])
					mu := updates.ModelUpdates{}
					if err := mu.AddOperation(e.dbm, "T", uuid, A, &opWire); err != nil {
						r.Violation("c10.diff-error."+shapeClass(c), fmt.Sprintf("%s (%s): a=%s b=%s: AddOperation: %v", cn, shape, a, b, err), cse)
						return
					}
					if s := snapshot(A); s != snapA {
						r.Violation("c10.diff-mutates-model."+shapeClass(c), fmt.Sprintf("%s (%s): computing the difference a=%s -> b=%s changed the model it was computed from: %s -> %s", cn, shape, a, b, snapA, s), cse)
					}
					if s := fmt.Sprintf("%#v", opWire.Row[cn]); s != snapOp {
						r.Violation("c10.diff-mutates-operation."+shapeClass(c), fmt.Sprintf("%s (%s): computing the difference a=%s -> b=%s changed the operation row: %s -> %s", cn, shape, a, b, snapOp, s), cse)
					}
					mod, found := modifyOf(mu, "T", uuid)
					hasDiff := found && mod != nil && len(*mod) > 0
					if hasDiff == equal {
						r.Violation("c10.diff-empty-iff-equal."+shapeClass(c), fmt.Sprintf("%s (%s): a=%s b=%s: equal=%v but modify=%v", cn, shape, a, b, equal, mod), cse)
					}
					if found {
						if nm := mu.GetModel("T", uuid); nm == nil || !colValue(c, nm).Equal(b.canon()) {
							r.Violation("c10.new-model."+shapeClass(c), fmt.Sprintf("%s (%s): a=%s b=%s: new model holds %v", cn, shape, a, b, nm), cse)
						}
					}
					if !hasDiff {
						return
					}
					// only the changed column may appear
					for k := range *mod {
						if k != cn {
							r.Violation("c10.diff-extra-column."+shapeClass(c), fmt.Sprintf("%s: modify carries column %s", cn, k), cse)
						}
					}
					// --- send it through JSON and apply it to a fresh copy of a
					var wire ovsdb.Row
					if err := jsonRoundTrip(*mod, &wire); err != nil {
						r.Violation("c10.diff-encoding."+shapeClass(c), fmt.Sprintf("%s (%s): a=%s b=%s: modify %v does not survive JSON: %v", cn, shape, a, b, *mod, err), cse)
						return
					}
					A2 := e.mkModel(uuid, cn, a)
					snapA2 := snapshot(A2)
					mu2 := updates.ModelUpdates{}
					if err := mu2.AddRowUpdate2(e.dbm, "T", uuid, A2, ovsdb.RowUpdate2{Modify: &wire}); err != nil {
						r.Violation("c10.apply-error."+shapeClass(c), fmt.Sprintf("%s (%s): a=%s b=%s: AddRowUpdate2: %v", cn, shape, a, b, err), cse)
						return
					}
					if s := snapshot(A2); s != snapA2 {
						r.Violation("c10.apply-mutates-model."+shapeClass(c), fmt.Sprintf("%s (%s): applying the difference of a=%s -> b=%s changed the old model: %s -> %s", cn, shape, a, b, snapA2, s), cse)
					}
					nm := mu2.GetModel("T", uuid)
					if nm == nil {
						r.Violation("c10.apply-lost."+shapeClass(c), fmt.Sprintf("%s (%s): a=%s b=%s: applying modify %v produced no update", cn, shape, a, b, wire), cse)
						return
					}
					if got := colValue(c, nm); !got.Equal(b.canon()) {
						r.Violation("c10.apply."+shapeClass(c), fmt.Sprintf("%s (%s): a=%s b=%s: modify %v applied to a gives %s", cn, shape, a, b, wire, got), cse)
					}
					// other columns untouched
					for _, oc := range []string{"s", "ss", "mss"} {
						if oc != cn && !colValue(e.t.Cols[oc], nm).Equal(colValue(e.t.Cols[oc], A2)) {
							r.Violation("c10.apply-other-column."+shapeClass(c), fmt.Sprintf("%s: applying a difference changed column %s", cn, oc), cse)
						}
					}
				}()
				// --- whole-row variant: the update names every filler column with the value it already has (a client writing
				// a model back), through AddOperation and through a v1 row update (old and new complete rows)
				if cn != "s" && cn != "ss" && cn != "mss" {
					func() {
						defer func() {
							if p := recover(); p != nil {
								r.Violation("c10.whole-row.panic."+shapeClass(c), fmt.Sprintf("%s (%s): a=%s b=%s: panic %v", cn, shape, a, b, p), cse)
							}
						}()
						fill := ovsdb.Row{"s": "filler", "ss": sys.ToOvs(e.t.Cols["ss"], rm.SetOf(rm.S("f1"), rm.S("f2"))), "mss": sys.ToOvs(e.t.Cols["mss"], rm.MapOf(rm.S("fk"), rm.S("fv")))}
						checkNew := func(path string, nm model.Model, ref model.Model) {
							if nm == nil {
								if !equal {
									r.Violation("c10.whole-row.lost."+path+"."+shapeClass(c), fmt.Sprintf("%s (%s): a=%s b=%s: %s recorded no update", cn, shape, a, b, path), cse)
								}
								return
							}
							if !colValue(c, nm).Equal(b.canon()) {
								r.Violation("c10.whole-row.new-model."+path+"."+shapeClass(c), fmt.Sprintf("%s (%s): a=%s b=%s: %s: new model holds %s", cn, shape, a, b, path, colValue(c, nm)), cse)
							}
							for _, oc := range []string{"s", "ss", "mss"} {
								if !colValue(e.t.Cols[oc], nm).Equal(colValue(e.t.Cols[oc], ref)) {
									r.Violation("c10.whole-row.unchanged-column-damaged."+path+"."+colShape(e.t.Cols[oc]), fmt.Sprintf("%s (%s): a=%s b=%s: %s with column %s named at its current value: new model holds %s=%s", cn, shape, a, b, path, oc, oc, colValue(e.t.Cols[oc], nm)), cse)
								}
							}
						}
						r.Add("whole_row_evaluations", 1)
						A3 := e.mkModel(uuid, cn, a)
						snapA3 := snapshot(A3)
						row := ovsdb.Row{cn: b.ovs(c)}
						for k, v := range fill {
							row[k] = v
						}
						var opW ovsdb.Operation
						if err := jsonRoundTrip(ovsdb.Operation{Op: "update", Table: "T", Row: row}, &opW); err != nil {
							panic(err)
						}
						mu3 := updates.ModelUpdates{}
						if err := mu3.AddOperation(e.dbm, "T", uuid, A3, &opW); err != nil {
							r.Violation("c10.whole-row.diff-error."+shapeClass(c), fmt.Sprintf("%s (%s): a=%s b=%s: AddOperation(whole row): %v", cn, shape, a, b, err), cse)
							return
						}
						if s := snapshot(A3); s != snapA3 {
							r.Violation("c10.whole-row.diff-mutates-model."+shapeClass(c), fmt.Sprintf("%s (%s): a=%s b=%s: the whole-row update changed the model it was computed from: %s -> %s", cn, shape, a, b, snapA3, s), cse)
						}
						checkNew("AddOperation", mu3.GetModel("T", uuid), e.mkModel(uuid, cn, a))
						if mod, found := modifyOf(mu3, "T", uuid); found && mod != nil {
							for k := range *mod {
								if k != cn {
									r.Violation("c10.whole-row.diff-extra-column."+shapeClass(c), fmt.Sprintf("%s: a=%s b=%s: modify of a whole-row update carries unchanged column %s", cn, a, b, k), cse)
								}
							}
						}
						// v1: old = complete row a, new = complete row b
						A4 := e.mkModel(uuid, cn, a)
						B4 := e.mkModel(uuid, cn, b)
						oldRow, err1 := e.dbm.Mapper.NewRow(mustInfo(e.dbm, A4))
						newRow, err2 := e.dbm.Mapper.NewRow(mustInfo(e.dbm, B4))
						if err1 != nil || err2 != nil {
							return
						}
						var ow, nw ovsdb.Row
						if jsonRoundTrip(oldRow, &ow) != nil || jsonRoundTrip(newRow, &nw) != nil {
							return
						}
						delete(ow, "_uuid")
						delete(nw, "_uuid")
						snapA4 := snapshot(A4)
						mu4 := updates.ModelUpdates{}
						if err := mu4.AddRowUpdate(e.dbm, "T", uuid, A4, ovsdb.RowUpdate{Old: &ow, New: &nw}); err != nil {
							r.Violation("c10.whole-row.v1-error."+shapeClass(c), fmt.Sprintf("%s (%s): a=%s b=%s: AddRowUpdate: %v", cn, shape, a, b, err), cse)
							return
						}
						if s := snapshot(A4); s != snapA4 {
							r.Violation("c10.whole-row.v1-mutates-model."+shapeClass(c), fmt.Sprintf("%s (%s): a=%s b=%s: applying a v1 update changed the old model: %s -> %s", cn, shape, a, b, snapA4, s), cse)
						}
						checkNew("AddRowUpdate", mu4.GetModel("T", uuid), B4)
					}()
				}
				// --- peer rule: value a, arbitrary difference b
				func() {
					defer func() {
						if p := recover(); p != nil {
							r.Violation("c10.peer.panic."+shapeClass(c), fmt.Sprintf("%s (%s): value=%s difference=%s: panic %v", cn, shape, a, b, p), cse)
						}
					}()
					if b.canon().Len() == 0 && !(c.Max == 1 && !c.Scalar()) {
						return // an empty difference is not sent for sets and maps
					}
					var wire ovsdb.Row
					if err := jsonRoundTrip(ovsdb.Row{cn: b.ovs(c)}, &wire); err != nil {
						panic(err)
					}
					V := e.mkModel(uuid, cn, a)
					snapV := snapshot(V)
					mu := updates.ModelUpdates{}
					if err := mu.AddRowUpdate2(e.dbm, "T", uuid, V, ovsdb.RowUpdate2{Modify: &wire}); err != nil {
						r.Add("peer_errors", 1)
						return
					}
					r.Add("peer_evaluations", 1)
					want := applyUpdate2(c, a.canon(), b.canon())
					nm := mu.GetModel("T", uuid)
					var got rm.Value
					if nm == nil {
						got = a.canon() // no update recorded: value unchanged
					} else {
						got = colValue(c, nm)
					}
					if !got.Equal(want) {
						r.Violation("c10.peer."+shapeClass(c), fmt.Sprintf("%s (%s): value=%s, peer difference=%s: got %s, update2 rules give %s", cn, shape, a, b, got, want), cse)
					}
					if s := snapshot(V); s != snapV {
						r.Violation("c10.peer-mutates-model."+shapeClass(c), fmt.Sprintf("%s (%s): applying peer difference %s to %s changed the old model: %s -> %s", cn, shape, b, a, snapV, s), cse)
					}
				}()
			}
		}
	})
	r.Set("distinct_nontrivial", r.DistinctCount("nontrivial"))
	r.Set("columns", len(cols))
	_ = sys.ToOvs
}

func mustInfo(dbm model.DatabaseModel, m model.Model) *mapper.Info {
	info, err := dbm.NewModelInfo(m)
	if err != nil {
		panic(err)
	}
	return info
}
