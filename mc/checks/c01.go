package checks

// C01 — a monitor-fed cache mirrors the database it monitors.

import (
	"context"
	"encoding/json"
	"fmt"
	"os"
	"path/filepath"
	"sort"
	"strings"
	"sync"
	"sync/atomic"
	"time"

	"github.com/ovn-org/libovsdb/client"
	"github.com/ovn-org/libovsdb/ovsdb"

	"verif/mc/dbx"
	"verif/mc/e2e"
	"verif/mc/ev"
	rm "verif/mc/refmodel"
	"verif/mc/schemas"
	"verif/mc/sys"
	"verif/mc/workers"
)

func tailStr(s string, n int) string {
	if len(s) > n {
		return s[len(s)-n:]
	}
	return s
}

func init() { register("C01", "model_checking", runC01) }

// monitor configurations: list of Monitor calls, each a list of (table, fields)
type c01Mon struct {
	tables map[string][]string // table -> fields (nil = all)
}

type c01Cfg struct {
	name string
	mons []c01Mon
}

func c01Cfgs() []c01Cfg {
	return []c01Cfg{
		{"all-tables", []c01Mon{{map[string][]string{"R": nil, "R2": nil, "RW": nil, "N1": nil, "N2": nil, "N3": nil, "PR": nil}}}},
		{"R[name,sset,cnt,wset]+N1", []c01Mon{{map[string][]string{"R": {"name", "sset", "cnt", "wset"}, "N1": nil}}}},
		{"N1,N2 then additional R,PR", []c01Mon{{map[string][]string{"N1": nil, "N2": nil}}, {map[string][]string{"R": nil, "PR": nil}}}},
	}
}

func c01Alphabet() []dbx.Txn {
	want := map[string]bool{}
	for _, n := range []string{
		"ins R 11", "del R 11", "rename R 11", "ins R r1 full", "ins chain R r1->a1->b1", "ins chain R r1->a1->b1 with b1.wp->p1", "ins R r1,r2 sharing a1",
		"ins N1 a2 + R 11.sset+=", "R 11.sset-=a1", "R 11.sset-=a2", "R 11.sset:=[]", "R 11.sset:=all", "R 11 write-back sset,wset:=all cnt:=6", "R 11.sopt:=a1", "R 11.sopt:=a2", "R 11.sopt:=[]",
		"R 11.smap insert k2:a2", "R 11.smap delete key k2", "R 11.smap:={}", "R 11.smap[k1]:=a2 (update)", "R 11.kmap insert a1:x", "R 11.kmap delete key a1",
		"R 11.wset:=all", "R 11.wopt:=a2", "R 11.wmap insert k1:a1", "del PR p1 + R r1.sset:=[]", "R r1.sset-=a1 + del PR p1", "del PR p1",
		"R r1.cnt:=5", "R r1.cnt:=0", "R r1.cnt+=1", "R r1.cnt-=1", "R r1.cnt*=0", "R r1.name:=\"\"", "rename N1 a1", "N1 a1.next:=[]", "ins N2 b1 + N1 a1.next:=",
		"R r1.smap[k1] changed then removed + cnt:=8", "R r1.kmap[a1] changed then removed + cnt:=8", "R r1.wmap[k1] removed then re-added as a2 + cnt:=8", "R r1.wmap[k1] changed and changed back + cnt:=8", "R r1.wset a1 removed then added back + cnt:=8",
		"ins N3 c1->c2 + R 11.s3:=c1 w3:=[c1,c2]", "ins PR p1 name=tmp then name:=\"\"", "ins R 15 name,cnt,wset then back to defaults except imm",
		"ins R2 q1 + new N1 a1", "del R2 q1", "ins N3 c1<->c2 + R 11.s3:=c1", "R 11.s3:=[]", "del all N1",
	} {
		want[n] = true
	}
	var out []dbx.Txn
	for _, t := range srefAlphabet(1) {
		if want[t.Name] {
			out = append(out, t)
			delete(want, t.Name)
		}
	}
	if len(want) > 0 {
		var miss []string
		for n := range want {
			miss = append(miss, n)
		}
		panic("c01 alphabet: unknown transactions " + strings.Join(miss, " | "))
	}
	return out
}

type c01Session struct {
	Hist    []int // transactions before the monitor(s)
	After   []int // transactions after
	Method  string
	Cfg     int
	OrderB  bool // park the (first) Monitor call after its reply while After[0] is committed and its notification handled
	OrderB2 bool // same for the additional monitor
	Own     bool // the last transaction is the client's own
	Strad   int  // 1 (2): the notification handler is parked before its first blocking synchronisation operation while the reply of the first (additional) monitor is applied
}

func (s c01Session) cfg() c01Cfg { return c01Cfgs()[s.Cfg] }

func (s c01Session) String() string {
	if s.Strad > 0 {
		return fmt.Sprintf("method=%s monitors=%s notification handler parked at its first synchronisation point while the reply of monitor #%d is applied", s.Method, s.cfg().name, s.Strad)
	}
	return fmt.Sprintf("method=%s monitors=%s replyAfterNotification=%v/%v own=%v", s.Method, s.cfg().name, s.OrderB, s.OrderB2, s.Own)
}

// projected comparison of cache and database
func c01Compare(ref *rm.Schema, cacheRows map[string]map[string]rm.Row, db *rm.DB, monitored map[string][]string) string {
	var diffs []string
	for t, fields := range monitored {
		cols := fields
		if cols == nil {
			cols = ref.Tables[t].ColNames()
		}
		proj := func(r rm.Row) string {
			var p []string
			for _, c := range cols {
				p = append(p, c+"="+r[c].String())
			}
			return strings.Join(p, " ")
		}
		for u, r := range db.T[t] {
			cr, ok := cacheRows[t][u]
			if !ok {
				diffs = append(diffs, fmt.Sprintf("%s/%s is in the database but not in the cache", t, short(u)))
			} else if proj(cr) != proj(r) {
				diffs = append(diffs, fmt.Sprintf("%s/%s: cache %s ; database %s", t, short(u), proj(cr), proj(r)))
			}
		}
		for u := range cacheRows[t] {
			if _, ok := db.T[t][u]; !ok {
				diffs = append(diffs, fmt.Sprintf("%s/%s is in the cache but not in the database", t, short(u)))
			}
		}
	}
	sort.Strings(diffs)
	return strings.Join(diffs, "\n")
}

func runC01(r *ev.Run) {
	depth := 2
	if r.Tier == "thorough" {
		depth = 3
		r.SetDeadline(45 * 60 * 1e9)
	} else {
		r.SetDeadline(240 * 1e9)
	}
	r.Set("rule", "state = history of committed S-ref transactions on a real server listening on a unix socket; a session connects a real client, establishes its monitor(s) at the end of the history (methods monitor / monitor_cond / monitor_cond_since; all tables, a column subset, or a first monitor plus an additional one) and then commits one or two more transactions (by another client, or by the client itself), optionally with the Monitor call parked after its reply while the next notification is handled; after every transaction returns the cache is compared with the database on the monitored tables and columns; non-trivial = session step in which a monitored row changed")
	r.Assume("'every notification sent so far has been processed' is established by an echo round trip of the client after the server-side transaction has returned (the client handles incoming messages in order); for the client's own transaction no barrier is used: the property requires the cache to be current when Transact returns; no sleeps are used")
	r.Assume("one cache per connection: overlapping monitors on the same table are out of scope")
	dbs := srefDB(false)
	ref := rm.FromOvsdb(dbs.Schema)
	alpha := c01Alphabet()
	r.Set("alphabet_size", len(alpha))
	var sessions []c01Session
	runSession := func(si int) {}
	_ = runSession
	if workers.IsWorker() {
		b, err := os.ReadFile(os.Getenv("VERIF_WORKER_DATA"))
		if err != nil {
			panic(err)
		}
		if err := json.Unmarshal(b, &sessions); err != nil {
			panic(err)
		}
	} else {
		// enumerate distinct states (server side only) with their shortest histories
		type st struct{ hist []int }
		var states []st
		var mu sync.Mutex
		scfg := dbx.Config{DBS: dbs, Alphabet: alpha, Depth: depth}
		scfg.OnState = func(hist []int, s *sys.Sys, d *rm.DB) {
			mu.Lock()
			states = append(states, st{append([]int{}, hist...)})
			mu.Unlock()
		}
		sr := ev.New("C01-states", r.Tier, "model_checking") // scratch run object for the state enumeration only
		dbx.Explore(sr, scfg)
		sort.Slice(states, func(i, j int) bool { return fmt.Sprint(states[i].hist) < fmt.Sprint(states[j].hist) })
		r.Set("states", len(states))
		cfgs := c01Cfgs()
		methods := []string{ovsdb.MonitorRPC, ovsdb.ConditionalMonitorRPC, ovsdb.ConditionalMonitorSinceRPC, ovsdb.ConditionalMonitorSinceRPC + "+update3"}
		for _, s := range states {
			for ti := range alpha {
				for mi, m := range methods {
					for ci, cfg := range cfgs {
						base := c01Session{Hist: s.hist, After: []int{ti}, Method: m, Cfg: ci}
						sessions = append(sessions, base)
						if (ti+mi+ci)%2 == 0 || r.Tier == "thorough" {
							b := base
							b.OrderB = true
							sessions = append(sessions, b)
						}
						if len(cfg.mons) > 1 {
							b := base
							b.OrderB2 = true
							sessions = append(sessions, b)
						}
						if (ti+mi)%3 == 0 || r.Tier == "thorough" {
							o := base
							o.Own = true
							sessions = append(sessions, o)
						}
						if e2e.PointsAvailable() && ((ti+mi+ci)%2 == 1 || r.Tier == "thorough") {
							b := base
							b.Strad = 1
							sessions = append(sessions, b)
							if len(cfg.mons) > 1 {
								b.Strad = 2
								sessions = append(sessions, b)
							}
						}
					}
				}
			}
		}
		r.Set("sessions", len(sessions))
	}
	sessionName := func(s c01Session) string {
		var h []string
		for _, i := range s.Hist {
			h = append(h, alpha[i].Name)
		}
		var a []string
		for _, i := range s.After {
			a = append(a, alpha[i].Name)
		}
		return strings.Join(h, " ; ") + " || MONITOR || " + strings.Join(a, " ; ")
	}
	defer e2e.Cleanup()
	run := func(si int) {
		s := sessions[si]
		func() {
			name := func() string {
				var h []string
				for _, i := range s.Hist {
					h = append(h, alpha[i].Name)
				}
				var a []string
				for _, i := range s.After {
					a = append(a, alpha[i].Name)
				}
				return strings.Join(h, " ; ") + " || MONITOR || " + strings.Join(a, " ; ")
			}
			defer func() {
				if p := recover(); p != nil {
					r.Violation("c01.harness-panic", fmt.Sprintf("%s [%s]: %v", name(), s, p), nil)
				}
			}()
			env := e2e.Start(dbs)
			defer env.Close()
			for _, i := range s.Hist {
				if res, err := env.Sys.TransactRef(alpha[i].Ops); err != nil || len(res) != len(alpha[i].Ops) {
					panic(fmt.Sprintf("replay failed %v %v", res, err))
				}
			}
			sock := env.Sock
			method := s.Method
			if strings.HasSuffix(method, "+update3") {
				// the in-tree server never sends update3: a proxy turns its update2 notifications into update3 with a transaction id
				method = strings.TrimSuffix(method, "+update3")
				px := env.WithProxy()
				var seq int64
				px.Rewrite = func(m e2e.Msg) json.RawMessage {
					if m.Dir != "s2c" || m.Method != "update2" {
						return nil
					}
					var n struct {
						Params []json.RawMessage `json:"params"`
					}
					if json.Unmarshal(m.Raw, &n) != nil || len(n.Params) != 2 {
						return nil
					}
					id := fmt.Sprintf("dddddddd-0000-0000-0000-%012d", atomic.AddInt64(&seq, 1))
					b, _ := json.Marshal(map[string]interface{}{"id": json.RawMessage(m.ID), "method": "update3", "params": []interface{}{n.Params[0], id, n.Params[1]}})
					r.Add("update3_notifications", 1)
					return b
				}
				sock = px.Sock
			}
			c := e2e.NewClient(dbs, sock)
			ctx, cancel := e2e.Ctx()
			defer cancel()
			if err := c.Connect(ctx); err != nil {
				r.Violation("c01.connect", fmt.Sprintf("%s: connect: %v", name(), err), nil)
				return
			}
			defer c.Close()
			pz := e2e.NewPauser(c)
			defer pz.Detach(c)
			// "every notification sent so far has been processed": the client handles incoming messages one at a time, so once an
			// echo round trip issued after the server-side transaction has returned, the notifications the server sent before
			// are behind it (this does not rely on the server waiting for the monitors' acknowledgements)
			barrier := func() {
				ectx, ecancel := context.WithTimeout(context.Background(), 10*time.Second)
				_ = c.Echo(ectx)
				ecancel()
			}
			monitored := map[string][]string{}
			feature := fmt.Sprintf("%s.%s", s.Method, strings.Fields(s.cfg().name)[0])
			cse := func(msg string) interface{} {
				return map[string]interface{}{"session": name(), "variant": s.String(), "msg": msg}
			}
			var pendingTxn chan error // server-side transaction running while a Monitor call is parked
			for mi, mon := range s.cfg().mons {
				m := c.NewMonitor()
				m.Method = method
				var tnames []string
				for t := range mon.tables {
					tnames = append(tnames, t)
				}
				sort.Strings(tnames)
				for _, t := range tnames {
					m.Tables = append(m.Tables, client.TableMonitor{Table: t, Fields: mon.tables[t]})
				}
				park := (mi == 0 && s.OrderB) || (mi == 1 && s.OrderB2)
				if s.Strad == mi+1 {
					park = true
					arrived := pz.Hold("monitor:reply")
					errCh := make(chan error, 1)
					go func() { _, err := c.Monitor(ctx, m); errCh <- err }()
					<-arrived
					// reply received, not applied. Commit the next transaction: its notification handler runs up to its
					// first blocking synchronisation operation and is parked there ...
					pts := e2e.ThePoints()
					parkedH := pts.HoldNextIn("(*ovsdbClient).update")
					txnDone := make(chan struct{})
					go func() { _, _ = env.Sys.TransactRef(alpha[s.After[0]].Ops); close(txnDone) }()
					select {
					case <-parkedH:
						r.Add("handlers_parked", 1)
					case <-txnDone: // no notification for this monitor
					case <-time.After(5 * time.Second):
					}
					// ... while the Monitor call applies its reply ...
					pz.Release("monitor:reply")
					var merr error
					mdone := false
					select {
					case merr = <-errCh:
						mdone = true
					case <-time.After(300 * time.Millisecond): // it waits for something the handler holds
					}
					// ... and then goes on
					pts.Release()
					if !mdone {
						merr = <-errCh
					}
					<-txnDone
					barrier()
					if merr != nil {
						r.Violation("c01.monitor-error."+feature, fmt.Sprintf("%s [%s]: Monitor: %v", name(), s, merr), cse(merr.Error()))
						return
					}
					pendingTxn = make(chan error, 1)
					pendingTxn <- nil
				} else if park {
					arrived := pz.Hold("monitor:reply")
					errCh := make(chan error, 1)
					go func() { _, err := c.Monitor(ctx, m); errCh <- err }()
					<-arrived
					// the monitor is registered on the server, its reply is not applied yet: commit the next transaction
					// and let its notification be handled first
					t := alpha[s.After[0]]
					res, err := env.Sys.TransactRef(t.Ops)
					_ = res
					_ = err
					pz.Release("monitor:reply")
					if err := <-errCh; err != nil {
						r.Violation("c01.monitor-error."+feature, fmt.Sprintf("%s [%s]: Monitor: %v", name(), s, err), cse(err.Error()))
						return
					}
					barrier()
					pendingTxn = make(chan error, 1)
					pendingTxn <- nil
				} else {
					if _, err := c.Monitor(ctx, m); err != nil {
						r.Violation("c01.monitor-error."+feature, fmt.Sprintf("%s [%s]: Monitor: %v", name(), s, err), cse(err.Error()))
						return
					}
				}
				for t, f := range mon.tables {
					monitored[t] = f
				}
				// initial contents (or initial contents + the overtaking notification)
				r.Add("transitions", 1)
				if d := c01Compare(ref, e2e.CacheState(ref, c), env.Sys.State(), monitored); d != "" {
					kind := "initial"
					if s.Strad == mi+1 {
						kind = fmt.Sprintf("notification-straddles-reply.monitor%d", mi+1)
					} else if park {
						kind = "reply-after-notification"
						if mi == 1 {
							kind = "additional-monitor.reply-after-notification"
						}
					} else if mi == 1 {
						kind = "additional-monitor.initial"
					}
					r.Violation("c01."+kind+"."+feature, fmt.Sprintf("%s [%s]: after Monitor #%d returned the cache differs from the database:\n%s", name(), s, mi+1, d), cse(d))
					return
				}
			}
			start := 0
			if pendingTxn != nil {
				start = 1
			}
			for k := start; k < len(s.After); k++ {
				t := alpha[s.After[k]]
				pre := env.Sys.State()
				own := s.Own && k == len(s.After)-1
				if own {
					ops := make([]ovsdb.Operation, len(t.Ops))
					for i, op := range t.Ops {
						ops[i] = sys.ToOvsOp(ref, op)
					}
					_, _ = c.Transact(ctx, ops...)
				} else {
					_, _ = env.Sys.TransactRef(t.Ops)
					barrier()
				}
				post := env.Sys.State()
				r.Add("transitions", 1)
				if post.Dump() != pre.Dump() {
					r.Distinct("nontrivial", pre.Dump()+"|"+t.Name+"|"+s.String())
				}
				if d := c01Compare(ref, e2e.CacheState(ref, c), post, monitored); d != "" {
					kind := "after-transaction"
					if own {
						kind = "own-transaction"
					}
					r.Violation("c01."+kind+"."+feature+"."+templ(t.Name), fmt.Sprintf("%s [%s]: after %q returned the cache differs from the database:\n%s", name(), s, t.Name, d), cse(d))
					return
				}
			}
			if !c.Connected() {
				r.Violation("c01.disconnected."+feature, fmt.Sprintf("%s [%s]: the client dropped its connection", name(), s), cse("disconnected"))
			}
			if si%997 == 0 {
				r.Sample(map[string]interface{}{"session": name(), "variant": s.String()})
			}
		}()
	}
	if workers.IsWorker() {
		workers.Child(r, run)
	}
	data := filepath.Join(os.TempDir(), fmt.Sprintf("vc-c01-%d.json", os.Getpid()))
	b, _ := json.Marshal(sessions)
	if err := os.WriteFile(data, b, 0o600); err != nil {
		panic(err)
	}
	defer os.Remove(data)
	workers.Parent(r, len(sessions), 150, data, 90*time.Second, func(c workers.Crash) {
		s := sessions[c.Session]
		msg, site := workers.PanicInfo(c.Stderr)
		kind := "crash"
		if c.Timeout {
			kind, msg, site = "hang", "session made no progress for 90s", "timeout"
		}
		r.Violation("c01."+kind+"."+site, fmt.Sprintf("%s [%s]: the process running the session died: %s (at %s)", sessionName(s), s, msg, site),
			map[string]interface{}{"session": sessionName(s), "variant": s.String(), "stderr_tail": tailStr(c.Stderr, 3000)})
	})
	r.Set("traces_validated_against_impl", r.Get("transitions"))
	r.Set("distinct_nontrivial", r.DistinctCount("nontrivial"))
	r.Set("evaluations", r.Get("transitions"))
	r.Set("max_depth", depth+1)
	r.Set("bound", fmt.Sprintf("states of depth <= %d over a %d-transaction alphabet; 4 methods (incl. update3 through a rewriting proxy) x 3 monitor configurations x {normal, notification handler parked while the reply is applied, reply applied after the next notification (first and additional monitor), own transaction}", depth, len(alpha)))
	_ = schemas.Get
}
