//go:build vsched

package checks

// C14 — cache events form a faithful, ordered change log.

import (
	"encoding/json"
	"fmt"
	"os"
	"sort"
	"strings"
	"sync"
	"sync/atomic"
	"time"

	"github.com/go-logr/logr"
	"github.com/ovn-org/libovsdb/cache"
	"github.com/ovn-org/libovsdb/model"
	"github.com/ovn-org/libovsdb/ovsdb"
	"github.com/ovn-org/libovsdb/verifshim/vsync"

	"verif/mc/canon"
	"verif/mc/ev"
	rm "verif/mc/refmodel"
	"verif/mc/schemas"
	"verif/mc/sys"
	"verif/mc/workers"
)

func init() { register("C14", "model_checking", runC14) }

const c14Schema = `{"name":"EVT","version":"1.0.0","tables":{
 "T":{"columns":{"a":{"type":"string"},"n":{"type":"integer"},"ss":{"type":{"key":{"type":"string"},"min":0,"max":"unlimited"}},"m":{"type":{"key":{"type":"string"},"value":{"type":"string"},"min":0,"max":"unlimited"}}},"indexes":[["a"]]},
 "U":{"columns":{"x":{"type":"string"}}}}}`

type c14Event struct {
	Kind, Table string
	Old, New    string // canonical models
	UUID        string
}

type c14Handler struct {
	id       int
	mu       sync.Mutex
	events   []c14Event
	inFlight int32
	overlap  bool
	total    *int64
}

func uuidOf(m model.Model) string {
	if m == nil {
		return ""
	}
	return schemas.Get(m, "_uuid").(string)
}

func (h *c14Handler) rec(kind, table string, old, new model.Model) {
	if atomic.AddInt32(&h.inFlight, 1) > 1 {
		h.overlap = true
	}
	e := c14Event{Kind: kind, Table: table}
	if old != nil {
		e.Old = canon.Model(old)
		e.UUID = uuidOf(old)
	}
	if new != nil {
		e.New = canon.Model(new)
		e.UUID = uuidOf(new)
	}
	h.mu.Lock()
	h.events = append(h.events, e)
	h.mu.Unlock()
	atomic.AddInt64(h.total, 1)
	atomic.AddInt32(&h.inFlight, -1)
}
func (h *c14Handler) OnAdd(t string, m model.Model)       { h.rec("add", t, nil, m) }
func (h *c14Handler) OnUpdate(t string, o, n model.Model) { h.rec("update", t, o, n) }
func (h *c14Handler) OnDelete(t string, m model.Model)    { h.rec("delete", t, m, nil) }

var c14U = []string{uu("e", 1), uu("e", 2), uu("e", 3)}

func c14Alphabet(level int) []c14Note {
	s := func(x string) rm.Value { return rm.SetOf(rm.S(x)) }
	i := func(x int64) rm.Value { return rm.SetOf(rm.I(x)) }
	var a []c14Note
	add := func(name string, ch ...c14Change) { a = append(a, c14Note{name, ch}) }
	for k, u := range c14U[:2+level] {
		nm := fmt.Sprintf("e%d", k+1)
		add("insert "+nm, c14Change{"T", u, "insert", rm.Row{"a": s("a-" + nm), "n": i(1), "ss": rm.SetOf(rm.S("x")), "m": rm.MapOf(rm.S("k"), rm.S("v"))}})
		add("modify "+nm+" n:=2", c14Change{"T", u, "modify", rm.Row{"n": i(2)}})
		add("modify "+nm+" ss+=y, m{k}:=w", c14Change{"T", u, "modify", rm.Row{"ss": rm.SetOf(rm.S("x"), rm.S("y")), "m": rm.MapOf(rm.S("k"), rm.S("w"))}})
		add("modify "+nm+" back to default", c14Change{"T", u, "modify", rm.Row{"n": i(0), "ss": rm.SetOf(), "m": rm.MapOf()}})
		add("modify "+nm+" no change (n:=current)", c14Change{"T", u, "modify-same", nil})
		add("delete "+nm, c14Change{"T", u, "delete", nil})
	}
	add("insert e1 + insert u1", c14Change{"T", c14U[0], "insert", rm.Row{"a": s("a-e1"), "n": i(1)}}, c14Change{"U", uu("e", 9), "insert", rm.Row{"x": s("u1")}})
	add("modify e1 + delete e2", c14Change{"T", c14U[0], "modify", rm.Row{"n": i(7)}}, c14Change{"T", c14U[1], "delete", nil})
	add("swap a of e1 and e2", c14Change{"T", c14U[0], "modify", rm.Row{"a": s("a-e2")}}, c14Change{"T", c14U[1], "modify", rm.Row{"a": s("a-e1")}})
	add("delete u1", c14Change{"U", uu("e", 9), "delete", nil})
	return a
}

// reference: apply a notification to the model state; returns accepted (a notification naming an unknown row
// for modify/delete, or an existing row for insert, is rejected by the cache as inconsistent)
func c14RefApply(ref *rm.Schema, st map[string]map[string]rm.Row, n c14Note) (ok bool, events int) {
	for _, c := range n.Changes {
		_, exists := st[c.Table][c.UUID]
		switch c.Kind {
		case "insert":
			if exists {
				return false, events
			}
		default:
			if !exists {
				return false, events
			}
		}
	}
	for _, c := range n.Changes {
		switch c.Kind {
		case "insert":
			row := rm.Row{}
			for cn, col := range ref.Tables[c.Table].Cols {
				row[cn] = col.Default()
			}
			for cn, v := range c.Row {
				row[cn] = v
			}
			st[c.Table][c.UUID] = row
			events++
		case "modify":
			changed := false
			for cn, v := range c.Row {
				if !st[c.Table][c.UUID][cn].Equal(v) {
					changed = true
				}
				st[c.Table][c.UUID][cn] = v
			}
			if changed {
				events++
			}
		case "delete":
			delete(st[c.Table], c.UUID)
			events++
		}
	}
	return true, events
}

// wire form (update2) of a notification given the current reference state
// c14Oracle checks the recorded logs against the final cache contents.
func c14Oracle(dbs *schemas.DB, tc *cache.TableCache, hs []*c14Handler, expectedEvents int) (string, string) {
	for _, h := range hs {
		if h.overlap {
			return "handler-concurrent-with-itself", fmt.Sprintf("handler %d was running twice at the same time", h.id)
		}
	}
	base := hs[0].events
	for _, h := range hs[1:] {
		if fmt.Sprint(h.events) != fmt.Sprint(base) {
			return "handlers-differ", fmt.Sprintf("handler 0 saw %d events %v, handler %d saw %d events %v", len(base), base, h.id, len(h.events), h.events)
		}
	}
	// replay
	state := map[string]map[string]string{}
	for _, e := range base {
		if state[e.Table] == nil {
			state[e.Table] = map[string]string{}
		}
		cur, exists := state[e.Table][e.UUID]
		switch e.Kind {
		case "add":
			if exists {
				return "illegal-sequence", fmt.Sprintf("add event for row %s that was already added", short(e.UUID))
			}
			state[e.Table][e.UUID] = e.New
		case "update":
			if !exists {
				return "illegal-sequence", fmt.Sprintf("update event for row %s that was never added (or already deleted)", short(e.UUID))
			}
			if cur != e.Old {
				return "update-old", fmt.Sprintf("update event for %s: old model %s but the previous state of the row is %s", short(e.UUID), e.Old, cur)
			}
			if e.Old == e.New {
				return "update-without-change", fmt.Sprintf("update event for %s with identical old and new model %s", short(e.UUID), e.New)
			}
			state[e.Table][e.UUID] = e.New
		case "delete":
			if !exists {
				return "illegal-sequence", fmt.Sprintf("delete event for row %s that is not there", short(e.UUID))
			}
			if cur != e.Old {
				return "delete-old", fmt.Sprintf("delete event for %s carries %s but the row was %s", short(e.UUID), e.Old, cur)
			}
			delete(state[e.Table], e.UUID)
		}
	}
	var got, want []string
	for t, rows := range state {
		for u, m := range rows {
			got = append(got, t+"/"+short(u)+": "+m)
		}
	}
	for _, t := range dbs.Tables() {
		for u, m := range tc.Table(t).Rows() {
			want = append(want, t+"/"+short(u)+": "+canon.Model(m))
		}
	}
	sort.Strings(got)
	sort.Strings(want)
	if strings.Join(got, "\n") != strings.Join(want, "\n") {
		return "replay-differs", fmt.Sprintf("replaying the %d events gives\n%s\nbut the cache holds\n%s", len(base), strings.Join(got, "\n"), strings.Join(want, "\n"))
	}
	if len(base) != expectedEvents {
		return "event-count", fmt.Sprintf("%d events delivered, %d changes were applied", len(base), expectedEvents)
	}
	return "", ""
}

type c14Scenario struct {
	Hist     []int
	Handlers int
	Mode     string // "seq" (default schedule only) or "sched" (all schedules within the bound), "sched+reader"
	Path     string // populate2 | populate
}

// c14Restart: the whole history is applied while no dispatcher runs (the events queue up, far fewer than the buffer holds);
// a dispatcher is started on an already closed stop channel (it may deliver some events before it notices), then another
// one is started: every event must still arrive, once, in order (events may be dropped only when the buffer overflows).
func c14Restart(r *ev.Run, dbs *schemas.DB, ref *rm.Schema, alpha []c14Note, sc c14Scenario) {
	var hnames []string
	for _, i := range sc.Hist {
		hnames = append(hnames, alpha[i].Name)
	}
	name := fmt.Sprintf("%v handlers=%d restart", hnames, sc.Handlers)
	l := logr.Discard()
	tc, err := cache.NewTableCache(dbs.DBModel(), nil, &l)
	if err != nil {
		panic(err)
	}
	var total int64
	var hs []*c14Handler
	for i := 0; i < sc.Handlers; i++ {
		h := &c14Handler{id: i, total: &total}
		hs = append(hs, h)
		tc.AddEventHandler(h)
	}
	st := map[string]map[string]rm.Row{"T": {}, "U": {}}
	expected := 0
	for _, i := range sc.Hist {
		n := alpha[i]
		trial := map[string]map[string]rm.Row{"T": {}, "U": {}}
		for t, rows := range st {
			for u, row := range rows {
				trial[t][u] = row.Clone()
			}
		}
		ok, nev := c14RefApply(ref, trial, n)
		if !ok {
			return // histories the cache refuses are covered by the other modes
		}
		if err := tc.Populate2(c14Wire(ref, st, n)); err != nil {
			return
		}
		st = trial
		expected += nev
	}
	if expected == 0 {
		return
	}
	stopped := make(chan struct{})
	close(stopped)
	done := make(chan struct{})
	go func() { tc.Run(stopped); close(done) }()
	select {
	case <-done:
	case <-time.After(10 * time.Second):
		r.Violation("c14.restart.run-does-not-stop", fmt.Sprintf("[%s] Run on a closed stop channel does not return", name), nil)
		return
	}
	stop2 := make(chan struct{})
	done2 := make(chan struct{})
	go func() { tc.Run(stop2); close(done2) }()
	want := int64(expected * sc.Handlers)
	deadline := time.Now().Add(5 * time.Second)
	for atomic.LoadInt64(&total) < want && time.Now().Before(deadline) {
		time.Sleep(200 * time.Microsecond)
	}
	close(stop2)
	select {
	case <-done2:
	case <-time.After(10 * time.Second):
	}
	r.Add("executions", 1)
	r.Add("restart_executions", 1)
	cse := map[string]interface{}{"history": hnames, "handlers": sc.Handlers, "mode": "restart"}
	if got := atomic.LoadInt64(&total); got < want {
		r.Violation("c14.restart.events-lost", fmt.Sprintf("[%s] %d events were queued when the dispatcher was stopped and restarted; only %d of %d deliveries arrived", name, expected, got, want), cse)
		return
	}
	if k, msg := c14Oracle(dbs, tc, hs, expected); k != "" {
		r.Violation("c14."+k+".restart", fmt.Sprintf("[%s] %s", name, msg), cse)
	}
}

func c14Explore(r *ev.Run, dbs *schemas.DB, ref *rm.Schema, alpha []c14Note, sc c14Scenario, bound int) {
	if sc.Mode == "restart" {
		c14Restart(r, dbs, ref, alpha, sc)
		return
	}
	var hnames []string
	for _, i := range sc.Hist {
		hnames = append(hnames, alpha[i].Name)
	}
	name := fmt.Sprintf("%v handlers=%d %s", hnames, sc.Handlers, sc.Mode)
	sig := sc.Mode + "." + sc.Path
	var explore func(prefix []int)
	execs := 0
	retry := 0
	explore = func(prefix []int) {
		if r.Expired() {
			return
		}
		l := logr.Discard()
		dbm := dbs.DBModel()
		tc, err := cache.NewTableCache(dbm, nil, &l)
		if err != nil {
			panic(err)
		}
		var total int64
		var hs []*c14Handler
		for i := 0; i < sc.Handlers; i++ {
			h := &c14Handler{id: i, total: &total}
			hs = append(hs, h)
			tc.AddEventHandler(h)
		}
		st := map[string]map[string]rm.Row{"T": {}, "U": {}}
		expected := 0
		rejectedWithEvent := ""
		stop := make(chan struct{})
		var applyErrs []string
		var stopOnce sync.Once
		closeStop := func() { stopOnce.Do(func() { close(stop) }) }
		updater := func() {
			defer closeStop() // also when the execution is aborted: the dispatcher must terminate
			for _, i := range sc.Hist {
				n := alpha[i]
				wire := c14Wire(ref, st, n)
				before := atomic.LoadInt64(&total)
				_ = before
				trial := map[string]map[string]rm.Row{"T": {}, "U": {}}
				for t, rows := range st {
					for u, row := range rows {
						trial[t][u] = row.Clone()
					}
				}
				ok, nev := c14RefApply(ref, trial, n)
				if !ok && len(n.Changes) > 1 {
					continue // a multi-row notification that is only partly applicable is never sent by a server
				}
				var err error
				switch sc.Path {
				case "populate":
					err = tc.Populate(v1Of(ref, st, trial, n))
				case "apply":
					// direct ApplyCacheUpdate with old/new models, also for changes the cache must refuse
					mk := func(t, u string, row rm.Row) model.Model {
						if row == nil {
							row = rm.Row{}
						}
						or := sys.ToOvsRow(ref.Tables[t], row)
						m, merr := model.CreateModel(dbm, t, &or, u)
						if merr != nil {
							panic(merr)
						}
						return m
					}
					for _, c := range n.Changes {
						var old, new model.Model
						cur, exists := st[c.Table][c.UUID]
						switch c.Kind {
						case "insert":
							new = mk(c.Table, c.UUID, c.Row)
						case "delete":
							old = mk(c.Table, c.UUID, cur)
						default:
							old = mk(c.Table, c.UUID, cur)
							nr := rm.Row{}
							for k, v := range cur {
								nr[k] = v
							}
							for k, v := range c.Row {
								nr[k] = v
							}
							new = mk(c.Table, c.UUID, nr)
							if exists && canon.Model(old) == canon.Model(new) {
								continue // no change: nothing to apply
							}
						}
						if e := tc.ApplyCacheUpdate(&c05Update{table: c.Table, rows: []struct {
							uuid     string
							old, new model.Model
						}{{c.UUID, old, new}}}); e != nil {
							err = e
							break
						}
					}
				default:
					err = tc.Populate2(wire)
				}
				if ok && err == nil {
					st = trial
					expected += nev
				} else if ok != (err == nil) {
					if len(n.Changes) == 1 {
						applyErrs = append(applyErrs, fmt.Sprintf("%s: reference accepted=%v, cache error=%v", n.Name, ok, err))
					}
					// a multi-row notification rejected half-way is resynchronised by a reconnect in the client: stop this history here
					if err != nil {
						break
					}
					st = trial
					expected += nev
				}
			}
			// wait until everything queued has been dispatched, then stop the dispatcher
			want := int64(expected * sc.Handlers)
			vsync.Yield("drained", func() bool { return atomic.LoadInt64(&total) >= want })
		}
		fns := []func(){updater, func() { tc.Run(stop) }}
		if sc.Mode == "sched+reader" {
			fns = append(fns, func() {
				for k := 0; k < 2; k++ {
					_ = tc.Table("T").Rows()
					tc.AddEventHandler(&cache.EventHandlerFuncs{})
				}
			})
		}
		res := vsync.Explore(fns, prefix, 3000, 10*time.Second)
		closeStop()
		if res.Diverged != "" && retry < 6 {
			// Go map iteration order inside the code under test changed the sequence of scheduling points: try again
			retry++
			explore(prefix)
			return
		}
		retry = 0
		execs++
		r.Add("executions", 1)
		workers.Heartbeat()
		r.Add("transitions", int64(len(res.Points)))
		var trace []string
		for _, p := range res.Points {
			trace = append(trace, p.Op)
		}
		cse := func(msg string) interface{} {
			return map[string]interface{}{"history": hnames, "handlers": sc.Handlers, "mode": sc.Mode, "path": sc.Path, "schedule": res.Choices, "trace": trace, "msg": msg}
		}
		switch {
		case res.Diverged != "":
			r.Add("diverged_replays", 1)
			r.Exhaustive = false
			return
		case res.Deadlock:
			r.Violation("c14.events-lost-or-deadlock."+sig, fmt.Sprintf("[%s] schedule %v: the dispatcher never delivers the %d expected events (%d delivered); blocked: %v", name, res.Choices, expected*sc.Handlers, atomic.LoadInt64(&total), res.Blocked), cse("deadlock"))
			return
		case res.Hang:
			r.Violation("c14.hang."+sig, fmt.Sprintf("[%s] schedule %v: a thread did not return to the scheduler: %v", name, res.Choices, res.Blocked), cse("hang"))
			return
		case len(res.ThreadErr) > 0:
			r.Violation("c14.panic."+sig, fmt.Sprintf("[%s] schedule %v: %v", name, res.Choices, res.ThreadErr), cse(strings.Join(res.ThreadErr, ";")))
			return
		}
		_ = rejectedWithEvent
		for _, e := range applyErrs {
			r.Add("noted_acceptance_mismatch", 1)
			r.Note(e)
		}
		preempt := 0
		for _, p := range res.Points {
			if p.PrevStill && p.Chosen != p.Prev {
				preempt++
			}
		}
		if k, msg := c14Oracle(dbs, tc, hs, expected); k != "" {
			r.Violation("c14."+k+"."+sig, fmt.Sprintf("[%s] schedule %v (%d preemptions): %s", name, res.Choices, preempt, msg), cse(msg))
		}
		r.Distinct("states", fmt.Sprint(sc.Hist, sc.Handlers, sc.Mode, sc.Path, res.Choices))
		if expected > 1 {
			r.Distinct("nontrivial", fmt.Sprint(sc.Hist, sc.Handlers, sc.Mode, sc.Path, res.Choices))
		}
		r.Distinct("outcomes", fmt.Sprint(hs[0].events))
		if execs == 1 && len(sc.Hist) == 3 && sc.Hist[0] == 0 && sc.Hist[1] == 2 {
			r.Sample(map[string]interface{}{"history": hnames, "handlers": sc.Handlers, "mode": sc.Mode, "events": hs[0].events})
		}
		if sc.Mode == "seq" {
			return
		}
		cost := 0
		for i, p := range res.Points {
			if i >= len(prefix) {
				for alt := 1; alt < len(p.Enabled); alt++ {
					c := cost
					if p.PrevStill {
						c++
					}
					if c > bound || (sc.Mode == "sched+reader" && c > bound-1) {
						continue
					}
					explore(append(append([]int{}, res.Choices[:i]...), alt))
				}
			}
			if p.PrevStill && res.Choices[i] != 0 {
				cost++
			}
		}
	}
	explore(nil)
}

// v1Of renders the notification as an RFC 7047 update (old/new rows) given the states before and after.
func v1Of(ref *rm.Schema, before, after map[string]map[string]rm.Row, n c14Note) ovsdb.TableUpdates {
	tu := ovsdb.TableUpdates{}
	for _, c := range n.Changes {
		if tu[c.Table] == nil {
			tu[c.Table] = ovsdb.TableUpdate{}
		}
		t := ref.Tables[c.Table]
		ru := &ovsdb.RowUpdate{}
		full := func(r rm.Row) *ovsdb.Row {
			if r == nil {
				r = rm.Row{}
				for cn, col := range t.Cols {
					r[cn] = col.Default()
				}
			}
			o := sys.ToOvsRow(t, r)
			return &o
		}
		switch c.Kind {
		case "insert":
			row := rm.Row{}
			for cn, col := range t.Cols {
				row[cn] = col.Default()
			}
			for cn, v := range c.Row {
				row[cn] = v
			}
			ru.New = full(row)
		case "delete":
			ru.Old = full(before[c.Table][c.UUID])
		default:
			ru.Old = full(before[c.Table][c.UUID])
			if a := after[c.Table][c.UUID]; a != nil {
				ru.New = full(a)
			} else {
				nr := rm.Row{}
				for cn, col := range t.Cols {
					nr[cn] = col.Default()
				}
				for cn, v := range c.Row {
					nr[cn] = v
				}
				ru.New = full(nr)
			}
		}
		var wire ovsdb.RowUpdate
		if err := jsonRoundTrip(ru, &wire); err != nil {
			panic(err)
		}
		tu[c.Table][c.UUID] = &wire
	}
	return tu
}

func runC14(r *ev.Run) {
	level, depth, bound := 0, 3, 2
	if r.Tier == "thorough" {
		level, depth, bound = 1, 4, 3
		r.SetDeadline(40 * 60 * 1e9)
	} else {
		r.SetDeadline(240 * 1e9)
	}
	r.Set("rule", "state = (notification history, schedule point); the cache's dispatcher goroutine, the goroutine applying notifications and optionally a reader/handler-registering goroutine run under the controlled scheduler (sync operations of package cache and the dispatcher's channel receive are scheduling points); (i) every history up to the depth with 1-3 handlers under the default schedule, through Populate2 and Populate; (ii) selected histories under every schedule within the preemption bound; the handlers' logs must be identical, legal per row, each update's old model must equal the reconstructed previous state, replaying the log must reproduce the cache, and the number of events must equal the number of applied changes; non-trivial = execution with more than one applied change")
	r.Assume("the event buffer (65536) never fills in these histories")
	dbs := schemas.MustBuild(c14Schema, nil)
	ref := rm.FromOvsdb(dbs.Schema)
	alpha := c14Alphabet(level)
	r.Set("alphabet_size", len(alpha))
	var scs []c14Scenario
	var rec func(h []int)
	rec = func(h []int) {
		if len(h) > 0 {
			nh := 1 + len(h)%3
			scs = append(scs, c14Scenario{Hist: append([]int{}, h...), Handlers: nh, Mode: "seq", Path: "populate2"})
			if len(h) >= 2 && (h[0]+h[1])%3 == 0 {
				scs = append(scs, c14Scenario{Hist: append([]int{}, h...), Handlers: nh, Mode: "seq", Path: "populate"})
			}
			if len(h) <= 2 || (h[0]+h[2])%4 == 0 {
				scs = append(scs, c14Scenario{Hist: append([]int{}, h...), Handlers: nh, Mode: "seq", Path: "apply"})
			}
			if len(h) == depth && (h[0]*7+h[1]*3+h[len(h)-1])%5 == 0 {
				scs = append(scs, c14Scenario{Hist: append([]int{}, h...), Handlers: nh, Mode: "restart", Path: "populate2"})
			}
		}
		if len(h) == depth {
			return
		}
		for i := range alpha {
			rec(append(h, i))
		}
	}
	rec(nil)
	// interleavings: a few histories with inserts, modifies and deletes of two rows
	idx := func(name string) int {
		for i, a := range alpha {
			if a.Name == name {
				return i
			}
		}
		panic(name)
	}
	for _, h := range [][]string{
		{"insert e1", "modify e1 n:=2", "delete e1"},
		{"insert e1", "insert e2", "swap a of e1 and e2"},
		{"insert e1 + insert u1", "modify e1 ss+=y, m{k}:=w", "delete u1"},
		{"insert e1", "modify e1 no change (n:=current)", "modify e1 back to default"},
	} {
		var hi []int
		for _, n := range h {
			hi = append(hi, idx(n))
		}
		scs = append(scs, c14Scenario{Hist: hi, Handlers: 2, Mode: "sched", Path: "populate2"})
		scs = append(scs, c14Scenario{Hist: hi[:2], Handlers: 1, Mode: "sched+reader", Path: "populate2"})
	}
	r.Set("scenarios", len(scs))
	if one := os.Getenv("VERIF_C14_ONE"); one != "" {
		var sc c14Scenario
		if err := json.Unmarshal([]byte(one), &sc); err != nil {
			panic(err)
		}
		c14Explore(r, dbs, ref, alpha, sc, bound)
		return
	}
	if workers.IsWorker() {
		workers.Child(r, func(i int) { c14Explore(r, dbs, ref, alpha, scs[i], bound) })
	}
	workers.Parent(r, len(scs), 200, "", 120*time.Second, func(c workers.Crash) {
		msg, site := workers.PanicInfo(c.Stderr)
		kind := "crash"
		if c.Timeout {
			kind, msg, site = "hang", "no progress for 120s", "timeout"
		}
		r.Violation("c14."+kind+"."+site, fmt.Sprintf("scenario %+v: the exploring process died: %s (at %s)", scs[c.Session], msg, site), map[string]interface{}{"stderr_tail": tailStr(c.Stderr, 3000)})
	})
	r.Set("states", r.DistinctCount("states"))
	r.Set("traces_validated_against_impl", r.Get("executions"))
	r.Set("evaluations", r.Get("executions"))
	r.Set("distinct_nontrivial", r.DistinctCount("nontrivial"))
	r.Set("preemption_bound", bound)
	r.Set("max_depth", depth)
}
