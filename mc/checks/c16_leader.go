package checks

// C16, leader-only part: two servers, each serving the database and _Server; leadership moves from one to the other at every
// step boundary of a session; the client must leave the endpoint that is no longer leader, attach to the other one and
// converge to ITS contents.

import (
	"context"
	"fmt"
	"sort"
	"time"

	"github.com/cenkalti/backoff/v4"
	"github.com/ovn-org/libovsdb/client"

	"verif/mc/e2e"
	"verif/mc/ev"
	rm "verif/mc/refmodel"
	"verif/mc/sys"
)

const (
	sidA = "aaaaaaaa-1111-1111-1111-111111111111"
	sidB = "bbbbbbbb-2222-2222-2222-222222222222"
)

func c16LeaderRun(r *ev.Run, s c16Session) {
	dbs := srefDB(false)
	ref := rm.FromOvsdb(dbs.Schema)
	setup, t1, t2, marker, away := c16Script()
	envs := []*e2e.Env{e2e.StartWithServerDB(dbs), e2e.StartWithServerDB(dbs)}
	defer envs[0].Close()
	defer envs[1].Close()
	for _, e := range envs {
		if res, err := e.Sys.TransactRef(setup); err != nil || len(res) != len(setup) {
			panic(fmt.Sprint("setup failed", res, err))
		}
	}
	envs[0].Sys.SetLeader(sidA, true)
	envs[1].Sys.SetLeader(sidB, false)
	leader := 0
	method := s.Method
	feature := fmt.Sprintf("leader.%s.mon%d", method, s.Monitors)
	cse := func(msg string) interface{} {
		return map[string]interface{}{"session": s.String(), "msg": msg}
	}
	// the follower is listed first: a leader-only client has to skip it
	eps := []string{"unix:" + envs[1].Sock, "unix:" + envs[0].Sock}
	if s.Away&1 != 0 {
		eps[0], eps[1] = eps[1], eps[0]
	}
	c := e2e.NewClient(dbs, envs[1].Sock, client.WithEndpoint(eps[0]), client.WithEndpoint(eps[1]), client.WithLeaderOnly(true),
		client.WithReconnect(2*time.Second, backoff.NewConstantBackOff(time.Millisecond)))
	c.UpdateEndpoints(eps)
	defer c.Close()
	attached := func(want int, step string) bool {
		deadline := time.Now().Add(10 * time.Second)
		for time.Now().Before(deadline) {
			if c.Connected() && c.CurrentEndpoint() == "unix:"+envs[want].Sock {
				return true
			}
			time.Sleep(2 * time.Millisecond)
		}
		r.Violation("c16.leader.not-attached-to-leader."+feature+"."+step, fmt.Sprintf("[%s] at step %q, 10 s after leadership moved, the client is attached to %q (connected=%v), the leader is %q", s, step, c.CurrentEndpoint(), c.Connected(), "unix:"+envs[want].Sock), cse("not attached to the leader"))
		return false
	}
	moved := false
	flip := func(step string) bool {
		// the new leader first, as a cluster does; then the old leader steps down and, meanwhile, the database moves on
		nl := 1 - leader
		sids := []string{sidA, sidB}
		envs[nl].Sys.SetLeader(sids[nl], true)
		envs[leader].Sys.SetLeader(sids[leader], false)
		leader = nl
		for _, a := range away {
			if res, err := envs[leader].Sys.TransactRef(a); err != nil || len(res) != len(a) {
				panic(fmt.Sprint("away transaction failed", res, err))
			}
		}
		moved = true
		return attached(leader, step)
	}
	step := 0
	at := func(name string) bool {
		step++
		if s.Leader == step || (s.Cut2 >= 0 && s.Leader+s.Cut2 == step && moved) {
			return flip(name)
		}
		return true
	}
	ctx, cancel := context.WithTimeout(context.Background(), 20*time.Second)
	defer cancel()
	if err := c.Connect(ctx); err != nil {
		r.Violation("c16.leader.connect."+feature, fmt.Sprintf("[%s] Connect: %v", s, err), cse(err.Error()))
		return
	}
	if !attached(leader, "connect") {
		return
	}
	if !at("before-monitors") {
		return
	}
	monitored := map[string][]string{}
	for mi := 0; mi < s.Monitors; mi++ {
		m := c.NewMonitor()
		m.Method = method
		var tn []string
		for t := range c16Mons[mi] {
			tn = append(tn, t)
		}
		sort.Strings(tn)
		for _, t := range tn {
			m.Tables = append(m.Tables, client.TableMonitor{Table: t})
		}
		ok := false
		for try := 0; try < 4 && !ok; try++ {
			mctx, mcancel := context.WithTimeout(context.Background(), 5*time.Second)
			_, err := c.Monitor(mctx, m)
			mcancel()
			ok = err == nil
			if !ok {
				time.Sleep(20 * time.Millisecond)
			}
		}
		if !ok {
			r.Violation("c16.leader.monitor."+feature, fmt.Sprintf("[%s] Monitor #%d keeps failing", s, mi+1), cse("monitor"))
			return
		}
		for t := range c16Mons[mi] {
			monitored[t] = nil
		}
		if !at(fmt.Sprintf("after-monitor%d", mi+1)) {
			return
		}
	}
	if s.Monitors == 1 {
		step++ // keep the step numbers of the later positions independent of the number of monitors
	}
	if res, err := envs[leader].Sys.TransactRef(t1); err != nil || len(res) != len(t1) {
		panic(fmt.Sprint("t1 failed", res, err))
	}
	if !at("after-t1") {
		return
	}
	tctx, tcancel := context.WithTimeout(context.Background(), 10*time.Second)
	res, terr := c.Transact(tctx, sys.ToOvsOp(ref, marker))
	tcancel()
	if !at("after-own-transact") {
		return
	}
	if res, err := envs[leader].Sys.TransactRef(t2); err != nil || len(res) != len(t2) {
		panic(fmt.Sprint("t2 failed", res, err))
	}
	if !at("after-t2") {
		return
	}
	// ---- oracle
	barrier := func() {
		ectx, ecancel := context.WithTimeout(context.Background(), 10*time.Second)
		_ = c.Echo(ectx)
		ecancel()
	}
	if !attached(leader, "end") {
		return
	}
	barrier()
	r.Add("leader_sessions_completed", 1)
	db := envs[leader].Sys.State()
	if d := c01Compare(ref, e2e.CacheState(ref, c), db, monitored); d != "" {
		r.Violation("c16.leader.cache-differs."+feature, fmt.Sprintf("[%s] after the session the cache differs from the leader's database:\n%s", s, d), cse(d))
	}
	markers := 0
	for _, e := range envs {
		for _, row := range e.Sys.State().T["R"] {
			if row["name"].Equal(rm.SetOf(rm.S("MARKER"))) {
				markers++
			}
		}
	}
	succeeded := terr == nil && len(res) == 1 && res[0].Error == ""
	if succeeded && markers != 1 {
		r.Violation("c16.leader.transact-results-but-not-once."+feature, fmt.Sprintf("[%s] Transact returned results but the marker row exists %d times (both servers counted)", s, markers), cse("marker"))
	}
	if !succeeded && markers > 1 {
		r.Violation("c16.leader.transact-error-but-applied-twice."+feature, fmt.Sprintf("[%s] Transact returned %v but the marker row exists %d times", s, terr, markers), cse("marker"))
	}
	probe := []rm.Op{opUpdate("R", uR[0], rm.Row{"cnt": rm.SetOf(rm.I(99))}), opUpdate("N1", uN1[1], rm.Row{"name": rm.SetOf(rm.S("final"))})}
	if _, err := envs[leader].Sys.TransactRef(probe); err == nil {
		barrier()
		if d := c01Compare(ref, e2e.CacheState(ref, c), envs[leader].Sys.State(), monitored); d != "" {
			r.Violation("c16.leader.monitor-lost."+feature, fmt.Sprintf("[%s] a transaction committed on the leader after the move does not reach the cache:\n%s", s, d), cse(d))
		}
	}
	if moved {
		r.Distinct("nontrivial", s.String())
	}
}
