package checks

// S-ref: schema with root / non-root tables and strong / weak references in
// scalar, optional, set, map-key and map-value positions, self references and
// chains; plus the transaction alphabet over a fixed UUID pool.

import (
	"fmt"
	"strings"

	"verif/mc/dbx"
	"verif/mc/ev"
	rm "verif/mc/refmodel"
	"verif/mc/schemas"
	"verif/mc/sys"
)

func srefSchemaJSON(allRoot bool) string {
	root := `,"isRoot":true`
	if allRoot {
		root = ""
	}
	ref := func(table, typ string) string {
		return fmt.Sprintf(`{"type":"uuid","refTable":"%s","refType":"%s"}`, table, typ)
	}
	return `{"name":"REF","version":"1.0.0","tables":{
 "R":{"columns":{
   "name":{"type":"string"},
   "imm":{"type":"string","mutable":false},
   "cnt":{"type":"integer"},
   "tags":{"type":{"key":{"type":"string"},"min":0,"max":3}},
   "sset":{"type":{"key":` + ref("N1", "strong") + `,"min":0,"max":"unlimited"}},
   "sopt":{"type":{"key":` + ref("N1", "strong") + `,"min":0,"max":1}},
   "smap":{"type":{"key":{"type":"string"},"value":` + ref("N1", "strong") + `,"min":0,"max":"unlimited"}},
   "kmap":{"type":{"key":` + ref("N1", "strong") + `,"value":{"type":"string"},"min":0,"max":"unlimited"}},
   "s3":{"type":{"key":` + ref("N3", "strong") + `,"min":0,"max":1}},
   "wset":{"type":{"key":` + ref("N1", "weak") + `,"min":0,"max":"unlimited"}},
   "wopt":{"type":{"key":` + ref("N1", "weak") + `,"min":0,"max":1}},
   "wmap":{"type":{"key":{"type":"string"},"value":` + ref("N1", "weak") + `,"min":0,"max":"unlimited"}},
   "w3":{"type":{"key":` + ref("N3", "weak") + `,"min":0,"max":"unlimited"}}
  }` + root + `},
 "R2":{"columns":{"one":{"type":{"key":` + ref("N1", "strong") + `}}}` + root + `},
 "RW":{"columns":{"w1":{"type":{"key":` + ref("N1", "weak") + `,"min":1,"max":"unlimited"}}}` + root + `},
 "N1":{"columns":{"name":{"type":"string"},"next":{"type":{"key":` + ref("N2", "strong") + `,"min":0,"max":1}}}},
 "N2":{"columns":{"name":{"type":"string"},"wp":{"type":{"key":` + ref("PR", "weak") + `,"min":0,"max":1}}},"indexes":[["name"]]},
 "PR":{"columns":{"name":{"type":"string"}},"indexes":[["name"]]` + root + `},
 "N3":{"columns":{"name":{"type":"string"},"peer":{"type":{"key":` + ref("N3", "strong") + `,"min":0,"max":1}}}}
}}`
}

func uu(prefix string, n int) string {
	return fmt.Sprintf("%s0000000-0000-0000-0000-%012d", prefix, n)
}

var (
	uR   = []string{uu("1", 1), uu("1", 2)}
	uR2  = []string{uu("2", 1)}
	uRW  = []string{uu("3", 1)}
	uN1  = []string{uu("a", 1), uu("a", 2), uu("a", 3)}
	uN2  = []string{uu("b", 1), uu("b", 2)}
	uN3  = []string{uu("c", 1), uu("c", 2)}
	uPR  = []string{uu("4", 1)}
	uPR2 = uu("4", 2)
)

func short(u string) string {
	if len(u) == 36 {
		return u[:1] + u[35:]
	}
	return u
}

func whereUUID(u string) []rm.Cond {
	return []rm.Cond{{Col: "_uuid", Fn: "==", Val: rm.SetOf(rm.U(u))}}
}

func uset(us ...string) rm.Value {
	var a []rm.Atom
	for _, u := range us {
		a = append(a, rm.U(u))
	}
	return rm.SetOf(a...)
}

func opInsert(table, uuid string, row rm.Row) rm.Op {
	return rm.Op{Op: "insert", Table: table, UUID: uuid, Row: row}
}
func opUpdate(table, uuid string, row rm.Row) rm.Op {
	return rm.Op{Op: "update", Table: table, Where: whereUUID(uuid), Row: row}
}
func opMutate(table, uuid, col, mutator string, v rm.Value) rm.Op {
	return rm.Op{Op: "mutate", Table: table, Where: whereUUID(uuid), Muts: []rm.Mut{{Col: col, Mutator: mutator, Val: v}}}
}
func opDelete(table, uuid string) rm.Op {
	return rm.Op{Op: "delete", Table: table, Where: whereUUID(uuid)}
}

func txn(name string, ops ...rm.Op) dbx.Txn { return dbx.Txn{Name: name, Ops: ops} }

// srefAlphabet builds the transaction alphabet. level 0 = quick, 1 = thorough.
func srefAlphabet(level int) []dbx.Txn {
	var a []dbx.Txn
	add := func(name string, ops ...rm.Op) { a = append(a, txn(name, ops...)) }
	n1 := uN1[:2]
	rs := uR[:1]
	if level > 0 {
		n1 = uN1
		rs = uR
	}
	str := func(s string) rm.Value { return rm.SetOf(rm.S(s)) }
	for _, r := range rs {
		add("ins R "+short(r), opInsert("R", r, rm.Row{"name": str("r" + short(r))}))
		add("del R "+short(r), opDelete("R", r))
		add("rename R "+short(r), opUpdate("R", r, rm.Row{"name": str("renamed")}))
		for _, n := range n1 {
			// insert N1 referenced from an existing R through each position
			add(fmt.Sprintf("ins N1 %s + R %s.sset+=", short(n), short(r)),
				opInsert("N1", n, rm.Row{"name": str("n" + short(n))}), opMutate("R", r, "sset", "insert", uset(n)))
			add(fmt.Sprintf("R %s.sset+=%s", short(r), short(n)), opMutate("R", r, "sset", "insert", uset(n)))
			add(fmt.Sprintf("R %s.sset-=%s", short(r), short(n)), opMutate("R", r, "sset", "delete", uset(n)))
			add(fmt.Sprintf("R %s.sopt:=%s", short(r), short(n)), opUpdate("R", r, rm.Row{"sopt": uset(n)}))
			add(fmt.Sprintf("ins N1 %s + R %s.sopt:=", short(n), short(r)),
				opInsert("N1", n, rm.Row{"name": str("n" + short(n))}), opUpdate("R", r, rm.Row{"sopt": uset(n)}))
			add(fmt.Sprintf("R %s.smap[k1]:=%s (update)", short(r), short(n)), opUpdate("R", r, rm.Row{"smap": rm.MapOf(rm.S("k1"), rm.U(n))}))
			add(fmt.Sprintf("R %s.smap insert k2:%s", short(r), short(n)), opMutate("R", r, "smap", "insert", rm.MapOf(rm.S("k2"), rm.U(n))))
			add(fmt.Sprintf("R %s.kmap insert %s:x", short(r), short(n)), opMutate("R", r, "kmap", "insert", rm.MapOf(rm.U(n), rm.S("x"))))
			add(fmt.Sprintf("R %s.kmap delete key %s", short(r), short(n)), opMutate("R", r, "kmap", "delete", uset(n)))
			add(fmt.Sprintf("R %s.wset+=%s", short(r), short(n)), opMutate("R", r, "wset", "insert", uset(n)))
			add(fmt.Sprintf("R %s.wopt:=%s", short(r), short(n)), opUpdate("R", r, rm.Row{"wopt": uset(n)}))
			add(fmt.Sprintf("R %s.wmap insert k1:%s", short(r), short(n)), opMutate("R", r, "wmap", "insert", rm.MapOf(rm.S("k1"), rm.U(n))))
			add(fmt.Sprintf("R %s.wmap insert k2:%s", short(r), short(n)), opMutate("R", r, "wmap", "insert", rm.MapOf(rm.S("k2"), rm.U(n))))
		}
		add(fmt.Sprintf("R %s.sopt:=[]", short(r)), opUpdate("R", r, rm.Row{"sopt": uset()}))
		add(fmt.Sprintf("R %s.smap delete key k1", short(r)), opMutate("R", r, "smap", "delete", rm.SetOf(rm.S("k1"))))
		add(fmt.Sprintf("R %s.smap delete key k2", short(r)), opMutate("R", r, "smap", "delete", rm.SetOf(rm.S("k2"))))
		add(fmt.Sprintf("R %s.smap:={}", short(r)), opUpdate("R", r, rm.Row{"smap": rm.MapOf()}))
		add(fmt.Sprintf("R %s.wset:=all", short(r)), opUpdate("R", r, rm.Row{"wset": uset(n1...)}))
		add(fmt.Sprintf("R %s.sset:=all", short(r)), opUpdate("R", r, rm.Row{"sset": uset(n1...)}))
		// a model written back: collections named at the value they may already hold, one scalar changed
		add(fmt.Sprintf("R %s write-back sset,wset:=all cnt:=6", short(r)), opUpdate("R", r, rm.Row{"sset": uset(n1...), "wset": uset(n1...), "cnt": rm.SetOf(rm.I(6))}))
		add(fmt.Sprintf("R %s.sset:=[]", short(r)), opUpdate("R", r, rm.Row{"sset": uset()}))
		add(fmt.Sprintf("R %s.smap:={k1:%s,k2:%s}", short(r), short(n1[0]), short(n1[0])),
			opUpdate("R", r, rm.Row{"smap": rm.MapOf(rm.S("k1"), rm.U(n1[0]), rm.S("k2"), rm.U(n1[0]))}))
		// delete R and a N1 it references in one transaction
		add(fmt.Sprintf("del R %s + del N1 %s", short(r), short(n1[0])), opDelete("R", r), opDelete("N1", n1[0]))
		// N3: self references and cycles hanging off R.s3
		add(fmt.Sprintf("ins N3 c1<->c2 + R %s.s3:=c1", short(r)),
			opInsert("N3", uN3[0], rm.Row{"name": str("c1"), "peer": uset(uN3[1])}),
			opInsert("N3", uN3[1], rm.Row{"name": str("c2"), "peer": uset(uN3[0])}),
			opUpdate("R", r, rm.Row{"s3": uset(uN3[0])}))
		add(fmt.Sprintf("ins N3 c1 (self) + R %s.s3:=c1", short(r)),
			opInsert("N3", uN3[0], rm.Row{"name": str("c1"), "peer": uset(uN3[0])}),
			opUpdate("R", r, rm.Row{"s3": uset(uN3[0])}))
		add(fmt.Sprintf("ins N3 c1->c2 + R %s.s3:=c1", short(r)),
			opInsert("N3", uN3[0], rm.Row{"name": str("c1"), "peer": uset(uN3[1])}),
			opInsert("N3", uN3[1], rm.Row{"name": str("c2")}),
			opUpdate("R", r, rm.Row{"s3": uset(uN3[0])}))
		add(fmt.Sprintf("R %s.s3:=[]", short(r)), opUpdate("R", r, rm.Row{"s3": uset()}))
		// weak references to both links of a chain that is collected one link per round, held by the row the transaction modifies
		add(fmt.Sprintf("ins N3 c1->c2 + R %s.s3:=c1 w3:=[c1,c2]", short(r)),
			opInsert("N3", uN3[0], rm.Row{"name": str("c1"), "peer": uset(uN3[1])}),
			opInsert("N3", uN3[1], rm.Row{"name": str("c2")}),
			opUpdate("R", r, rm.Row{"s3": uset(uN3[0]), "w3": uset(uN3[0], uN3[1])}))
		add(fmt.Sprintf("R %s.w3:=[c1,c2]", short(r)), opUpdate("R", r, rm.Row{"w3": uset(uN3[0], uN3[1])}))
		add(fmt.Sprintf("R %s.s3:=c2", short(r)), opUpdate("R", r, rm.Row{"s3": uset(uN3[1])}))
	}
	for _, n := range n1 {
		add("ins N1 "+short(n)+" alone", opInsert("N1", n, rm.Row{"name": str("lonely")}))
		add("del N1 "+short(n), opDelete("N1", n))
		add("rename N1 "+short(n), opUpdate("N1", n, rm.Row{"name": str("renamed")}))
		for _, b := range uN2[:1+level] {
			add(fmt.Sprintf("ins N2 %s + N1 %s.next:=", short(b), short(n)),
				opInsert("N2", b, rm.Row{"name": str("b" + short(b))}), opUpdate("N1", n, rm.Row{"next": uset(b)}))
		}
		add(fmt.Sprintf("N1 %s.next:=[]", short(n)), opUpdate("N1", n, rm.Row{"next": uset()}))
		add(fmt.Sprintf("ins R2 q1.one:=%s", short(n)), opInsert("R2", uR2[0], rm.Row{"one": uset(n)}))
		add(fmt.Sprintf("R2 q1.one:=%s", short(n)), opUpdate("R2", uR2[0], rm.Row{"one": uset(n)}))
		add(fmt.Sprintf("ins RW w1.w1:=[%s]", short(n)), opInsert("RW", uRW[0], rm.Row{"w1": uset(n)}))
	}
	add("ins R2 q1 + new N1 a1", opInsert("N1", n1[0], rm.Row{"name": str("viaR2")}), opInsert("R2", uR2[0], rm.Row{"one": uset(n1[0])}))
	add("del R2 q1", opDelete("R2", uR2[0]))
	add("ins RW w1.w1:=all", opInsert("RW", uRW[0], rm.Row{"w1": uset(n1...)}))
	add("del RW w1", opDelete("RW", uRW[0]))
	add("del all N1", rm.Op{Op: "delete", Table: "N1", Where: nil})
	add("del N2 b1", opDelete("N2", uN2[0]))
	add("del N3 c1", opDelete("N3", uN3[0]))
	// chain built in one transaction: R -> N1 -> N2
	add("ins chain R r1->a1->b1",
		opInsert("N2", uN2[0], rm.Row{"name": str("b")}),
		opInsert("N1", n1[0], rm.Row{"name": str("a"), "next": uset(uN2[0])}),
		opInsert("R", uR[0], rm.Row{"name": str("chain"), "sset": uset(n1[0])}))
	// a plain counter: values returning to the default, arithmetic reaching zero
	add("R r1.cnt:=5", opUpdate("R", uR[0], rm.Row{"cnt": rm.SetOf(rm.I(5))}))
	add("R r1.cnt:=0", opUpdate("R", uR[0], rm.Row{"cnt": rm.SetOf(rm.I(0))}))
	add("R r1.cnt+=1", opMutate("R", uR[0], "cnt", "+=", rm.SetOf(rm.I(1))))
	add("R r1.cnt-=1", opMutate("R", uR[0], "cnt", "-=", rm.SetOf(rm.I(1))))
	add("R r1.cnt*=0", opMutate("R", uR[0], "cnt", "*=", rm.SetOf(rm.I(0))))
	add("R r1.name:=\"\"", opUpdate("R", uR[0], rm.Row{"name": str("")}))
	// a non-root leaf holding a weak reference to a root row (garbage collection and weak clean-up in one go)
	add("ins PR p1", opInsert("PR", uPR[0], rm.Row{"name": str("peer")}))
	add("del PR p1", opDelete("PR", uPR[0]))
	add("ins chain R r1->a1->b1 with b1.wp->p1",
		opInsert("PR", uPR[0], rm.Row{"name": str("peer")}),
		opInsert("N2", uN2[0], rm.Row{"name": str("leaf"), "wp": uset(uPR[0])}),
		opInsert("N1", n1[0], rm.Row{"name": str("mid"), "next": uset(uN2[0])}),
		opInsert("R", uR[0], rm.Row{"name": str("top"), "sset": uset(n1[0])}))
	add("N2 b1.wp:=p1", opUpdate("N2", uN2[0], rm.Row{"wp": uset(uPR[0])}))
	add("R r1.sset-=a1 + del PR p1", opMutate("R", uR[0], "sset", "delete", uset(n1[0])), opDelete("PR", uPR[0]))
	add("del PR p1 + R r1.sset:=[]", opDelete("PR", uPR[0]), opUpdate("R", uR[0], rm.Row{"sset": uset()}))
	add("del R r1 + del PR p1", opDelete("R", uR[0]), opDelete("PR", uPR[0]))
	add("ins R r1,r2 sharing a1",
		opInsert("N1", n1[0], rm.Row{"name": str("shared")}),
		opInsert("R", uR[0], rm.Row{"name": str("one"), "sset": uset(n1[0]), "wset": uset(n1[0]), "smap": rm.MapOf(rm.S("k1"), rm.U(n1[0]))}),
		opInsert("R", uR[1], rm.Row{"name": str("two"), "sset": uset(n1[0]), "wset": uset(n1[0]), "smap": rm.MapOf(rm.S("k1"), rm.U(n1[0]))}))
	add("ins R r1 full",
		opInsert("N1", n1[0], rm.Row{"name": str("a1")}),
		opInsert("N1", n1[1], rm.Row{"name": str("a2")}),
		opInsert("R", uR[0], rm.Row{"name": str("full"), "sset": uset(n1[0], n1[1]), "sopt": uset(n1[0]),
			"smap": rm.MapOf(rm.S("k1"), rm.U(n1[1])), "kmap": rm.MapOf(rm.U(n1[0]), rm.S("x")),
			"wset": uset(n1[0], n1[1]), "wopt": uset(n1[1]), "wmap": rm.MapOf(rm.S("k1"), rm.U(n1[0]), rm.S("k2"), rm.U(n1[1]))}))
	// several steps on one column of one row inside one transaction (the row is the one "ins R r1 full" creates), with
	// another column changed too: the notification carries the merged difference
	one := func(i int64) rm.Value { return rm.SetOf(rm.I(i)) }
	add("R r1.smap[k1] changed then removed + cnt:=8",
		opUpdate("R", uR[0], rm.Row{"smap": rm.MapOf(rm.S("k1"), rm.U(n1[0]))}), opMutate("R", uR[0], "smap", "delete", rm.SetOf(rm.S("k1"))), opUpdate("R", uR[0], rm.Row{"cnt": one(8)}))
	add("R r1.kmap[a1] changed then removed + cnt:=8",
		opUpdate("R", uR[0], rm.Row{"kmap": rm.MapOf(rm.U(n1[0]), rm.S("y"))}), opMutate("R", uR[0], "kmap", "delete", uset(n1[0])), opUpdate("R", uR[0], rm.Row{"cnt": one(8)}))
	add("R r1.wmap[k1] removed then re-added as a2 + cnt:=8",
		opMutate("R", uR[0], "wmap", "delete", rm.SetOf(rm.S("k1"))), opMutate("R", uR[0], "wmap", "insert", rm.MapOf(rm.S("k1"), rm.U(n1[1]))), opUpdate("R", uR[0], rm.Row{"cnt": one(8)}))
	add("R r1.wmap[k1] changed and changed back + cnt:=8",
		opUpdate("R", uR[0], rm.Row{"wmap": rm.MapOf(rm.S("k1"), rm.U(n1[1]), rm.S("k2"), rm.U(n1[1]))}), opUpdate("R", uR[0], rm.Row{"wmap": rm.MapOf(rm.S("k1"), rm.U(n1[0]), rm.S("k2"), rm.U(n1[1]))}), opUpdate("R", uR[0], rm.Row{"cnt": one(8)}))
	add("R r1.wset a1 removed then added back + cnt:=8",
		opMutate("R", uR[0], "wset", "delete", uset(n1[0])), opMutate("R", uR[0], "wset", "insert", uset(n1[0])), opUpdate("R", uR[0], rm.Row{"cnt": one(8)}))
	// weak references to non-root rows the same transaction inserts and nothing references strongly (collected at once)
	add("ins N1 a1 unreferenced + R r1.wset+=a1,wopt:=a1", opInsert("N1", n1[0], rm.Row{"name": str("ghost")}), opMutate("R", uR[0], "wset", "insert", uset(n1[0])), opUpdate("R", uR[0], rm.Row{"wopt": uset(n1[0])}))
	add("ins N3 c1->c2 unreferenced + R r1.w3:=[c1,c2]", opInsert("N3", uN3[0], rm.Row{"name": str("c1"), "peer": uset(uN3[1])}), opInsert("N3", uN3[1], rm.Row{"name": str("c2")}), opUpdate("R", uR[0], rm.Row{"w3": uset(uN3[0], uN3[1])}))
	add("ins RW w1.w1:=[new unreferenced a1]", opInsert("N1", n1[0], rm.Row{"name": str("ghost")}), opInsert("RW", uRW[0], rm.Row{"w1": uset(n1[0])}))
	// a reference column holding the UUID of a row of ANOTHER table than the one it refers to (no such row in its own table)
	add("R r1.wset+=b1 (an N2 row)", opMutate("R", uR[0], "wset", "insert", uset(uN2[0])))
	add("R r1.wset+=b1 (an N2 row) + del N2 b1", opMutate("R", uR[0], "wset", "insert", uset(uN2[0])), opDelete("N2", uN2[0]))
	add("R r1.wset+=b1 (an N2 row) + N1 a1.next:=[]", opMutate("R", uR[0], "wset", "insert", uset(uN2[0])), opUpdate("N1", n1[0], rm.Row{"next": uset()}))
	add("R r1.wopt:=p1 (a PR row) + del PR p1", opUpdate("R", uR[0], rm.Row{"wopt": uset(uPR[0])}), opDelete("PR", uPR[0]))
	// a set with a finite maximum above one, changed by several operations of one transaction
	add("R r1.tags+=x ; +=y", opMutate("R", uR[0], "tags", "insert", rm.SetOf(rm.S("x"))), opMutate("R", uR[0], "tags", "insert", rm.SetOf(rm.S("y"))))
	add("R r1.tags:=[x,y] ; -=x ; +=z", opUpdate("R", uR[0], rm.Row{"tags": rm.SetOf(rm.S("x"), rm.S("y"))}), opMutate("R", uR[0], "tags", "delete", rm.SetOf(rm.S("x"))), opMutate("R", uR[0], "tags", "insert", rm.SetOf(rm.S("z"))))
	add("R r1.tags-=y ; +=y ; cnt:=8", opMutate("R", uR[0], "tags", "delete", rm.SetOf(rm.S("y"))), opMutate("R", uR[0], "tags", "insert", rm.SetOf(rm.S("y"))), opUpdate("R", uR[0], rm.Row{"cnt": rm.SetOf(rm.I(8))}))
	// read operations between and after the modifying ones (they add nothing to the accumulated update)
	add("R r1.wset+=a2 ; select R", opMutate("R", uR[0], "wset", "insert", uset(n1[1])), rm.Op{Op: "select", Table: "R"})
	add("R r1.wset+=a2 ; select N1 ; R r1.wset-=a1", opMutate("R", uR[0], "wset", "insert", uset(n1[1])), rm.Op{Op: "select", Table: "N1"}, opMutate("R", uR[0], "wset", "delete", uset(n1[0])))
	add("R r1.smap insert k2:a2 ; wait ; cnt:=8", opMutate("R", uR[0], "smap", "insert", rm.MapOf(rm.S("k2"), rm.U(n1[1]))),
		rm.Op{Op: "wait", Table: "R", Where: whereUUID(uR[0]), Until: "!=", Columns: []string{"name"}, Rows: []rm.Row{{"name": str("no such name")}}}, opUpdate("R", uR[0], rm.Row{"cnt": rm.SetOf(rm.I(8))}))
	// rows of two tables under the same UUID (an explicit UUID is the client's choice): what happens to one must not touch the other
	add("ins PR twin (uuid of R r1)", opInsert("PR", uR[0], rm.Row{"name": str("twin")}))
	add("del R r1 ; select PR ; PR twin.name:=kept", opDelete("R", uR[0]), rm.Op{Op: "select", Table: "PR"}, opUpdate("PR", uR[0], rm.Row{"name": str("kept")}))
	add("del PR twin ; select R ; R r1.cnt:=7", opDelete("PR", uR[0]), rm.Op{Op: "select", Table: "R", Columns: []string{"name", "cnt"}}, opUpdate("R", uR[0], rm.Row{"cnt": rm.SetOf(rm.I(7))}))
	// unique values exchanged between two committed rows (every intermediate step duplicates a value, the final state does not)
	add("ins PR p1,p2", opInsert("PR", uPR[0], rm.Row{"name": str("peer")}), opInsert("PR", uPR2, rm.Row{"name": str("peer2")}))
	add("swap PR p1.name<->p2.name", opUpdate("PR", uPR[0], rm.Row{"name": str("peer2")}), opUpdate("PR", uPR2, rm.Row{"name": str("peer")}))
	add("PR p2.name:=peer after p1.name:=free", opUpdate("PR", uPR[0], rm.Row{"name": str("free")}), opUpdate("PR", uPR2, rm.Row{"name": str("peer")}))
	// ---- from here on: transactions added while the checks were strengthened against seeded changes (dbx.Txn.Late)
	first := len(a)
	defer func() {
		for i := first; i < len(a); i++ {
			a[i].Late = true
		}
	}()
	// mutations naming several elements, of which the column holds some, all or none (depends on the state they meet)
	add("R r1.sset-={a1,a2}", opMutate("R", uR[0], "sset", "delete", uset(n1[0], n1[1])))
	add("R r1.wset-={a1,a2}", opMutate("R", uR[0], "wset", "delete", uset(n1[0], n1[1])))
	add("R r1.wset+={a1,a2}", opMutate("R", uR[0], "wset", "insert", uset(n1[0], n1[1])))
	add("R r1.kmap delete keys {a1,a2}", opMutate("R", uR[0], "kmap", "delete", uset(n1[0], n1[1])))
	add("R r1.wmap delete keys {k1,k2}", opMutate("R", uR[0], "wmap", "delete", rm.SetOf(rm.S("k1"), rm.S("k2"))))
	add("R r1.wmap insert {k1:a1,k2:a2}", opMutate("R", uR[0], "wmap", "insert", rm.MapOf(rm.S("k1"), rm.U(n1[0]), rm.S("k2"), rm.U(n1[1]))))
	// a chain of non-root rows much longer than the schema has tables, hanging off one reference: dropping that reference
	// (or the row holding it) collects one link per round
	{
		ops := []rm.Op{}
		for i := srefDeep; i >= 1; i-- {
			row := rm.Row{"name": str(fmt.Sprintf("d%d", i))}
			if i < srefDeep {
				row["peer"] = uset(uu("d", i+1))
			}
			ops = append(ops, opInsert("N3", uu("d", i), row))
		}
		ops = append(ops, opUpdate("R", uR[0], rm.Row{"s3": uset(uu("d", 1))}))
		add(fmt.Sprintf("ins N3 chain d1->...->d%d + R r1.s3:=d1", srefDeep), ops...)
	}
	// a row inserted and, in the same transaction, changed so that columns end at their default again
	add("ins PR p1 name=tmp then name:=\"\"", opInsert("PR", uPR[0], rm.Row{"name": str("tmp")}), opUpdate("PR", uPR[0], rm.Row{"name": str("")}))
	add("ins R 15 name,cnt,wset then back to defaults except imm",
		opInsert("R", uu("1", 5), rm.Row{"name": str("tmp"), "cnt": one(5), "imm": str("kept"), "wset": uset(n1[0])}),
		opUpdate("R", uu("1", 5), rm.Row{"name": str(""), "cnt": one(0)}),
		opMutate("R", uu("1", 5), "wset", "delete", uset(n1[0])))
	return a
}

// srefDeep: length of the long garbage-collection chain (the schema has 7 tables)
const srefDeep = 20

func srefDB(allRoot bool) *schemas.DB { return schemas.MustBuild(srefSchemaJSON(allRoot), nil) }

func histStr(e *dbx.Edge) string {
	return strings.Join(append(append([]string{}, e.HistName...), "=> "+e.Txn.Name), " ; ")
}

// DebugReplay replays named transactions of the S-ref alphabet on a fresh server and prints every step.
func DebugReplay(names []string) {
	alpha := srefAlphabet(1)
	s := sys.New(srefDB(false))
	for _, n := range names {
		found := false
		for _, t := range alpha {
			if t.Name == n {
				found = true
				res, err := s.TransactRef(t.Ops)
				st := s.State()
				fmt.Printf("== %s\nresults: %s err=%v\n%s\nrefs:\n%s\n", n, ev.J(res), err, st.Dump(), s.Refs(st))
			}
		}
		if !found {
			fmt.Println("unknown txn", n)
		}
	}
}
