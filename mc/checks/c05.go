package checks

// C05 — cache indexes always agree with cache contents.
//
// Explicit-state exploration of the real cache.RowCache/TableCache: every valid
// table content over a small row universe is a state; every pair of valid
// contents (S,S') is a batch (the net change), applied in EVERY order of its
// rows through three paths (ApplyCacheUpdate with a harness-ordered update,
// Populate2 one row at a time, direct Create/Update/Delete). Depth 2 chains two
// batches on one live cache (first batch in identity order) so that damage done
// by one batch and only visible after the next is reached.

import (
	"context"
	"fmt"
	"reflect"
	"sort"
	"strings"

	"github.com/go-logr/logr"
	"github.com/ovn-org/libovsdb/cache"
	"github.com/ovn-org/libovsdb/client"
	"github.com/ovn-org/libovsdb/model"
	"github.com/ovn-org/libovsdb/ovsdb"

	"verif/mc/canon"
	"verif/mc/ev"
	"verif/mc/par"
	"verif/mc/schemas"
)

func init() { register("C05", "model_checking", runC05) }

const c05SchemaTmpl = `{"name":"IDX","version":"1.0.0","tables":{"T":{"columns":{
 "a":{"type":"string"},
 "b":{"type":"string"},
 "c":{"type":{"key":{"type":"string"},"min":0,"max":1}},
 "d":{"type":{"key":{"type":"string"},"min":0,"max":1}},
 "m":{"type":{"key":{"type":"string"},"value":{"type":"string"},"min":0,"max":"unlimited"}},
 "n":{"type":"integer"}},
 "indexes":%s}}}`

type c05Cfg struct {
	name   string
	schema string // JSON list of schema indexes
	client []model.ClientIndex
}

func ck(cols ...interface{}) model.ClientIndex {
	ci := model.ClientIndex{}
	for _, c := range cols {
		switch v := c.(type) {
		case string:
			ci.Columns = append(ci.Columns, model.ColumnKey{Column: v})
		case [2]string:
			ci.Columns = append(ci.Columns, model.ColumnKey{Column: v[0], Key: v[1]})
		}
	}
	return ci
}

var c05Cfgs = []c05Cfg{
	{"schema[a]", `[["a"]]`, nil},
	{"schema[a],[b,c]", `[["a"],["b","c"]]`, nil},
	{"schema[a],[b]", `[["a"],["b"]]`, nil}, // two single-column indexes: a batch can change both values of a row, a later one only one of them
	{"schema[a]+client[a],[n]", `[["a"]]`, []model.ClientIndex{ck("a"), ck("n")}},
	{"client[c],[m|k1]", `[]`, []model.ClientIndex{ck("c"), ck([2]string{"m", "k1"})}},
	{"client[a,b]", `[]`, []model.ClientIndex{ck("a", "b")}},
	{"schema[b,c]+client[a]", `[["b","c"]]`, []model.ClientIndex{ck("a")}},
	{"schema[a]+client[n],[m|k1]", `[["a"]]`, []model.ClientIndex{ck("n"), ck([2]string{"m", "k1"})}},
	{"schema[n]+client[c,n]", `[["n"]]`, []model.ClientIndex{ck("c", "n")}},
	// indexes with two positions that can be empty: two optional columns, two keys of one map, an optional column and a map key
	{"schema[c,d]", `[["c","d"]]`, nil},
	{"client[m|k1,m|k2],[c,m|k1]", `[]`, []model.ClientIndex{ck([2]string{"m", "k1"}, [2]string{"m", "k2"}), ck("c", [2]string{"m", "k1"})}},
}

// row valuation
type c05Val struct {
	A, B string
	C    *string
	D    *string
	M    map[string]string
	N    int
}

func sp(s string) *string { return &s }

var c05Universe = []c05Val{
	// values 1 and 3 differ in (b,c) but agree once the two strings are put end to end ("p"+"qs" = "pq"+"s"): a multi-column key must keep them apart
	// values 0 and 1 hold the same string in complementary optional columns (c, d), values 1 and 3 the same string under complementary map keys
	{"x", "p", nil, sp("qs"), nil, 0},
	{"y", "p", sp("qs"), nil, map[string]string{"k1": "u"}, 1},
	{"z", "pq", sp("qs"), sp("t"), map[string]string{"k1": "u", "k2": "w"}, 1},
	{"x", "pq", sp("s"), nil, map[string]string{"k2": "u"}, 2},
	{"y", "r", sp("s"), sp("qs"), map[string]string{"k1": "w"}, 0},
	{"w", "p", nil, nil, nil, 2},
}

var c05UUIDs = []string{
	"00000000-0000-0000-0000-0000000000a1", "00000000-0000-0000-0000-0000000000a2",
	"00000000-0000-0000-0000-0000000000a3", "00000000-0000-0000-0000-0000000000a4",
}

// index spec as the oracle sees it
type c05Index struct {
	cols   []model.ColumnKey
	schema bool
	name   string
}

type c05Env struct {
	cfg     c05Cfg
	db      *schemas.DB
	dbm     model.DatabaseModel
	indexes []c05Index // in lookup order: schema first, then client (dups of schema skipped)
	nvals   int
	nuuids  int
}

func newC05Env(cfg c05Cfg, nvals, nuuids int) *c05Env {
	db := schemas.MustBuild(fmt.Sprintf(c05SchemaTmpl, cfg.schema), map[string][]model.ClientIndex{"T": cfg.client})
	if len(cfg.client) == 0 {
		db.Indexes = nil
	}
	e := &c05Env{cfg: cfg, db: db, dbm: db.DBModel(), nvals: nvals, nuuids: nuuids}
	seen := map[string]bool{}
	name := func(cols []model.ColumnKey) string {
		var s []string
		for _, c := range cols {
			if c.Key != nil {
				s = append(s, fmt.Sprintf("%s|%v", c.Column, c.Key))
			} else {
				s = append(s, c.Column)
			}
		}
		sort.Strings(s)
		return strings.Join(s, ",")
	}
	for _, si := range db.Schema.Tables["T"].Indexes {
		var cols []model.ColumnKey
		for _, c := range si {
			cols = append(cols, model.ColumnKey{Column: c})
		}
		n := name(cols)
		seen[n] = true
		e.indexes = append(e.indexes, c05Index{cols, true, n})
	}
	for _, ci := range cfg.client {
		n := name(ci.Columns)
		if seen[n] {
			continue
		}
		seen[n] = true
		e.indexes = append(e.indexes, c05Index{ci.Columns, false, n})
	}
	return e
}

func (e *c05Env) mk(uuid string, v c05Val) model.Model {
	m := e.db.NewModel("T")
	schemas.Set(m, "_uuid", uuid)
	schemas.Set(m, "a", v.A)
	schemas.Set(m, "b", v.B)
	if v.C != nil {
		schemas.Set(m, "c", sp(*v.C))
	}
	if v.D != nil {
		schemas.Set(m, "d", sp(*v.D))
	}
	if v.M != nil {
		mm := map[string]string{}
		for k, x := range v.M {
			mm[k] = x
		}
		schemas.Set(m, "m", mm)
	}
	schemas.Set(m, "n", v.N)
	return m
}

// oracle key of a row for an index: independent of the implementation's hashing
func c05Key(ix c05Index, v c05Val) string {
	var parts []string
	for _, c := range ix.cols {
		var s string
		switch c.Column {
		case "a":
			s = "a=" + v.A
		case "b":
			s = "b=" + v.B
		case "c":
			if v.C == nil {
				s = "c=<nil>"
			} else {
				s = "c=" + *v.C
			}
		case "d":
			if v.D == nil {
				s = "d=<nil>"
			} else {
				s = "d=" + *v.D
			}
		case "n":
			s = fmt.Sprintf("n=%d", v.N)
		case "m":
			x, ok := v.M[c.Key.(string)]
			if !ok {
				s = fmt.Sprintf("m|%v=<absent>", c.Key)
			} else {
				s = fmt.Sprintf("m|%v=%s", c.Key, x)
			}
		}
		parts = append(parts, s)
	}
	return strings.Join(parts, ";")
}

// state: value index per uuid, -1 = absent
type c05State []int

func (e *c05Env) decode(code int) c05State {
	s := make(c05State, e.nuuids)
	for i := range s {
		s[i] = code%(e.nvals+1) - 1
		code /= e.nvals + 1
	}
	return s
}

func (e *c05Env) nstates() int {
	n := 1
	for i := 0; i < e.nuuids; i++ {
		n *= e.nvals + 1
	}
	return n
}

// valid: no two rows equal on a schema index
func (e *c05Env) valid(s c05State) bool {
	for _, ix := range e.indexes {
		if !ix.schema {
			continue
		}
		seen := map[string]bool{}
		for _, v := range s {
			if v < 0 {
				continue
			}
			k := c05Key(ix, c05Universe[v])
			if seen[k] {
				return false
			}
			seen[k] = true
		}
	}
	return true
}

type c05Change struct {
	U        int
	Old, New int
}

func c05Diff(a, b c05State) []c05Change {
	var ch []c05Change
	for i := range a {
		if a[i] != b[i] {
			ch = append(ch, c05Change{i, a[i], b[i]})
		}
	}
	return ch
}

// harness cacheUpdate with a fixed row order
type c05Update struct {
	table string
	rows  []struct {
		uuid     string
		old, new model.Model
	}
}

func (u *c05Update) GetUpdatedTables() []string {
	if u.table != "" {
		return []string{u.table}
	}
	return []string{"T"}
}
func (u *c05Update) ForEachModelUpdate(table string, do func(uuid string, old, new model.Model) error) error {
	for _, r := range u.rows {
		if err := do(r.uuid, r.old, r.new); err != nil {
			return err
		}
	}
	return nil
}

var c05Paths = []string{"apply", "populate2", "direct", "populate"}

func (e *c05Env) newCache() *cache.TableCache {
	l := logr.Discard()
	tc, err := cache.NewTableCache(e.dbm, nil, &l)
	if err != nil {
		panic(err)
	}
	return tc
}

func (e *c05Env) build(tc *cache.TableCache, s c05State) error {
	for i, v := range s {
		if v >= 0 {
			if err := tc.Table("T").Create(c05UUIDs[i], e.mk(c05UUIDs[i], c05Universe[v]), false); err != nil {
				return err
			}
		}
	}
	return nil
}

func (e *c05Env) row(v int, uuid string) *ovsdb.Row {
	info, _ := e.dbm.NewModelInfo(e.mk(uuid, c05Universe[v]))
	// all columns explicitly (a full row as a server would send)
	row, err := e.dbm.Mapper.NewRow(info)
	if err != nil {
		panic(err)
	}
	delete(row, "_uuid")
	return &row
}

// apply a batch in the given order through a path
func (e *c05Env) apply(tc *cache.TableCache, path string, ch []c05Change, order []int) error {
	t := tc.Table("T")
	switch path {
	case "apply":
		u := &c05Update{}
		for _, i := range order {
			c := ch[i]
			var old, new model.Model
			if c.Old >= 0 {
				old = e.mk(c05UUIDs[c.U], c05Universe[c.Old])
			}
			if c.New >= 0 {
				new = e.mk(c05UUIDs[c.U], c05Universe[c.New])
			}
			u.rows = append(u.rows, struct {
				uuid     string
				old, new model.Model
			}{c05UUIDs[c.U], old, new})
		}
		return tc.ApplyCacheUpdate(u)
	case "direct":
		for _, i := range order {
			c := ch[i]
			var err error
			switch {
			case c.Old < 0:
				err = t.Create(c05UUIDs[c.U], e.mk(c05UUIDs[c.U], c05Universe[c.New]), false)
			case c.New < 0:
				err = t.Delete(c05UUIDs[c.U])
			default:
				_, err = t.Update(c05UUIDs[c.U], e.mk(c05UUIDs[c.U], c05Universe[c.New]), false)
			}
			if err != nil {
				return err
			}
		}
		return nil
	case "populate2":
		for _, i := range order {
			c := ch[i]
			ru := &ovsdb.RowUpdate2{}
			switch {
			case c.Old < 0:
				ru.Insert = e.row(c.New, c05UUIDs[c.U])
			case c.New < 0:
				ru.Delete = &ovsdb.Row{}
			default:
				ru.Modify = e.modify(c.Old, c.New)
			}
			if err := tc.Populate2(ovsdb.TableUpdates2{"T": {c05UUIDs[c.U]: ru}}); err != nil {
				return err
			}
		}
		return nil
	case "populate":
		for _, i := range order {
			c := ch[i]
			ru := &ovsdb.RowUpdate{}
			if c.Old >= 0 {
				ru.Old = e.fullRow(c.Old)
			}
			if c.New >= 0 {
				ru.New = e.fullRow(c.New)
			}
			if err := tc.Populate(ovsdb.TableUpdates{"T": {c05UUIDs[c.U]: ru}}); err != nil {
				return err
			}
		}
		return nil
	}
	panic(path)
}

// full v1 row: every column present (so this path does not depend on how defaults are encoded)
func (e *c05Env) fullRow(v int) *ovsdb.Row {
	u := c05Universe[v]
	row := ovsdb.Row{"a": u.A, "b": u.B, "n": u.N}
	if u.C == nil {
		row["c"] = ovsdb.OvsSet{GoSet: []interface{}{}}
	} else {
		row["c"] = ovsdb.OvsSet{GoSet: []interface{}{*u.C}}
	}
	if u.D == nil {
		row["d"] = ovsdb.OvsSet{GoSet: []interface{}{}}
	} else {
		row["d"] = ovsdb.OvsSet{GoSet: []interface{}{*u.D}}
	}
	mm := map[interface{}]interface{}{}
	for k, x := range u.M {
		mm[k] = x
	}
	row["m"] = ovsdb.OvsMap{GoMap: mm}
	return &row
}

// update2 "modify" difference old->new, computed by the oracle from the update2 rules
func (e *c05Env) modify(o, n int) *ovsdb.Row {
	a, b := c05Universe[o], c05Universe[n]
	row := ovsdb.Row{}
	if a.A != b.A {
		row["a"] = b.A
	}
	if a.B != b.B {
		row["b"] = b.B
	}
	if a.N != b.N {
		row["n"] = b.N
	}
	if (a.C == nil) != (b.C == nil) || (a.C != nil && *a.C != *b.C) {
		if b.C == nil {
			row["c"] = ovsdb.OvsSet{GoSet: []interface{}{}}
		} else {
			row["c"] = ovsdb.OvsSet{GoSet: []interface{}{*b.C}}
		}
	}
	if (a.D == nil) != (b.D == nil) || (a.D != nil && *a.D != *b.D) {
		if b.D == nil {
			row["d"] = ovsdb.OvsSet{GoSet: []interface{}{}}
		} else {
			row["d"] = ovsdb.OvsSet{GoSet: []interface{}{*b.D}}
		}
	}
	mm := map[interface{}]interface{}{}
	for k, x := range a.M {
		if y, ok := b.M[k]; !ok {
			mm[k] = x // removed: old value
		} else if y != x {
			mm[k] = y // changed: new value
		}
	}
	for k, y := range b.M {
		if _, ok := a.M[k]; !ok {
			mm[k] = y
		}
	}
	if len(mm) > 0 {
		row["m"] = ovsdb.OvsMap{GoMap: mm}
	}
	return &row
}

func uuidSetStr(m map[string]bool) string {
	var s []string
	for k := range m {
		s = append(s, k[len(k)-2:])
	}
	sort.Strings(s)
	return strings.Join(s, "+")
}

// invariant check; returns (lookup kind, index name/type, message) on failure
func (e *c05Env) check(tc *cache.TableCache, want c05State, full bool) (kind, ixname string, msg string) {
	t := tc.Table("T")
	rows := t.Rows()
	// contents
	n := 0
	for i, v := range want {
		if v < 0 {
			if _, ok := rows[c05UUIDs[i]]; ok {
				return "contents", "-", fmt.Sprintf("row %s should be absent", c05UUIDs[i])
			}
			continue
		}
		n++
		got, ok := rows[c05UUIDs[i]]
		if !ok {
			return "contents", "-", fmt.Sprintf("row %s missing", c05UUIDs[i])
		}
		if canon.Model(got) != canon.Model(e.mk(c05UUIDs[i], c05Universe[v])) {
			return "contents", "-", fmt.Sprintf("row %s = %s", c05UUIDs[i], canon.Model(got))
		}
	}
	if len(rows) != n {
		return "contents", "-", "extra rows"
	}
	for ixn, ix := range e.indexes {
		typ := "client"
		if ix.schema {
			typ = "schema"
		}
		// scan partition
		scan := map[string]map[string]bool{}
		for i, v := range want {
			if v < 0 {
				continue
			}
			k := c05Key(ix, c05Universe[v])
			if scan[k] == nil {
				scan[k] = map[string]bool{}
			}
			scan[k][c05UUIDs[i]] = true
		}
		var wantCells []string
		for _, c := range scan {
			wantCells = append(wantCells, uuidSetStr(c))
		}
		sort.Strings(wantCells)
		// Index()
		idx, err := t.Index(strings.Split(ix.name, ",")...)
		if err != nil {
			return "Index", typ, err.Error()
		}
		var gotCells []string
		for _, l := range idx {
			c := map[string]bool{}
			for _, u := range l {
				c[u] = true
			}
			gotCells = append(gotCells, uuidSetStr(c))
		}
		sort.Strings(gotCells)
		if strings.Join(gotCells, " ") != strings.Join(wantCells, " ") {
			return "Index", typ, fmt.Sprintf("index %s: Index() cells %v, scan cells %v", ix.name, gotCells, wantCells)
		}
		// lookups through this index for every stored row
		for i, v := range want {
			if v < 0 {
				continue
			}
			probe := e.probe(ix, c05Universe[v])
			exp := e.expectRowsByModels(probe, want, true)
			got, err := t.RowsByModels([]model.Model{e.probeModel(probe)})
			if err != nil {
				return "RowsByModels", typ, err.Error()
			}
			if m := c05Cmp(got, exp, e, want); m != "" {
				return "RowsByModels", typ, fmt.Sprintf("index %s (#%d) probe %+v for row %s: %s", ix.name, ixn, probe, c05UUIDs[i][34:], m)
			}
			if !full {
				continue
			}
			// RowByModel: schema indexes only
			expS := e.expectRowsByModels(probe, want, false)
			u, gm, err := t.RowByModel(e.probeModel(probe))
			if err != nil {
				return "RowByModel", typ, err.Error()
			}
			one := map[string]model.Model{}
			if gm != nil {
				one[u] = gm
			}
			if m := c05Cmp(one, expS, e, want); m != "" {
				return "RowByModel", typ, fmt.Sprintf("index %s probe %+v: %s", ix.name, probe, m)
			}
			// client API: Get and Where(model).List
			api := client.VerifNewAPI(tc)
			pm := e.probeModel(probe)
			err = api.Get(context.Background(), pm)
			if len(expS) == 0 {
				if err == nil {
					return "Get", typ, fmt.Sprintf("index %s probe %+v: Get found %s, scan finds nothing", ix.name, probe, canon.Model(pm))
				}
			} else {
				if err != nil {
					return "Get", typ, fmt.Sprintf("index %s probe %+v: Get: %v", ix.name, probe, err)
				}
				ok := false
				for ui := range expS {
					if canon.Model(pm) == canon.Model(e.mk(ui, c05Universe[want[c05UUIDIndex(ui)]])) {
						ok = true
					}
				}
				if !ok {
					return "Get", typ, fmt.Sprintf("index %s probe %+v: Get returned %s", ix.name, probe, canon.Model(pm))
				}
			}
			lst := reflect.New(reflect.SliceOf(e.db.Types["T"]))
			if err := api.Where(e.probeModel(probe)).List(context.Background(), lst.Interface()); err != nil {
				return "Where.List", typ, err.Error()
			}
			gl := map[string]model.Model{}
			for k := 0; k < lst.Elem().Len(); k++ {
				m := lst.Elem().Index(k).Interface()
				gl[schemas.Get(m, "_uuid").(string)] = m
			}
			if m := c05Cmp(gl, exp, e, want); m != "" {
				return "Where.List", typ, fmt.Sprintf("index %s probe %+v: %s", ix.name, probe, m)
			}
		}
	}
	// UUID lookups
	for i, v := range want {
		pm := e.db.NewModel("T")
		schemas.Set(pm, "_uuid", c05UUIDs[i])
		u, gm, err := t.RowByModel(pm)
		if err != nil {
			return "RowByModel.uuid", "-", err.Error()
		}
		if v >= 0 {
			if gm == nil || u != c05UUIDs[i] || canon.Model(gm) != canon.Model(e.mk(u, c05Universe[v])) {
				return "RowByModel.uuid", "-", fmt.Sprintf("uuid %s: got %v", c05UUIDs[i], gm)
			}
		} else {
			// unknown uuid: the lookup falls through to the schema indexes with the probe's (default) values
			one := map[string]model.Model{}
			if gm != nil {
				one[u] = gm
			}
			if m := c05Cmp(one, e.expectRowsByModels(c05Probe{}, want, false), e, want); m != "" {
				return "RowByModel.uuid", "-", fmt.Sprintf("absent uuid %s: %s", c05UUIDs[i], m)
			}
		}
	}
	return "", "", ""
}

func c05UUIDIndex(u string) int {
	for i, x := range c05UUIDs {
		if x == u {
			return i
		}
	}
	return -1
}

// a probe has only the columns of one index set (copied from a stored row)
type c05Probe struct {
	val  c05Val
	cols map[string]bool
}

func (e *c05Env) probe(ix c05Index, v c05Val) c05Probe {
	p := c05Probe{cols: map[string]bool{}}
	for _, c := range ix.cols {
		p.cols[c.Column] = true
		switch c.Column {
		case "a":
			p.val.A = v.A
		case "b":
			p.val.B = v.B
		case "c":
			p.val.C = v.C
		case "d":
			p.val.D = v.D
		case "n":
			p.val.N = v.N
		case "m":
			p.val.M = v.M
		}
	}
	return p
}

func (e *c05Env) probeModel(p c05Probe) model.Model { return e.mk("", p.val) }

// first index (in lookup order) for which the scan finds a row equal to the probe on all its columns
func (e *c05Env) expectRowsByModels(p c05Probe, st c05State, useClient bool) map[string]bool {
	for _, ix := range e.indexes {
		if !ix.schema && !useClient {
			break
		}
		k := c05Key(ix, p.val)
		cell := map[string]bool{}
		for i, v := range st {
			if v >= 0 && c05Key(ix, c05Universe[v]) == k {
				cell[c05UUIDs[i]] = true
			}
		}
		if len(cell) > 0 {
			return cell
		}
	}
	return map[string]bool{}
}

func c05Cmp(got map[string]model.Model, exp map[string]bool, e *c05Env, st c05State) string {
	g := map[string]bool{}
	for u, m := range got {
		g[u] = true
		i := c05UUIDIndex(u)
		if i < 0 || st[i] < 0 || m == nil {
			return fmt.Sprintf("returned row %s that is not stored", u)
		}
		if canon.Model(m) != canon.Model(e.mk(u, c05Universe[st[i]])) {
			return fmt.Sprintf("returned stale contents for %s: %s", u, canon.Model(m))
		}
	}
	if uuidSetStr(g) != uuidSetStr(exp) {
		return fmt.Sprintf("lookup returned rows {%s}, scan gives {%s}", uuidSetStr(g), uuidSetStr(exp))
	}
	return ""
}

// does an indexed value move from one row to another inside the batch?
func (e *c05Env) moves(ch []c05Change) bool {
	for _, ix := range e.indexes {
		for _, c1 := range ch {
			if c1.Old < 0 {
				continue
			}
			for _, c2 := range ch {
				if c2.U != c1.U && c2.New >= 0 && c05Key(ix, c05Universe[c1.Old]) == c05Key(ix, c05Universe[c2.New]) &&
					(c1.New < 0 || c05Key(ix, c05Universe[c1.New]) != c05Key(ix, c05Universe[c1.Old])) {
					return true
				}
			}
		}
	}
	return false
}

type c05Case struct {
	Cfg    string        `json:"index_config"`
	Path   string        `json:"path"`
	Start  []string      `json:"start_state"`
	Batch1 []string      `json:"batch1,omitempty"`
	Batch  []string      `json:"batch"`
	Order  []int         `json:"order"`
	Msg    string        `json:"msg"`
	Raw    []interface{} `json:"raw"`
}

func (e *c05Env) descState(s c05State) []string {
	var out []string
	for i, v := range s {
		if v >= 0 {
			out = append(out, fmt.Sprintf("%s:%s", c05UUIDs[i][34:], c05Key(c05Index{cols: []model.ColumnKey{{Column: "a"}, {Column: "b"}, {Column: "c"}, {Column: "d"}, {Column: "n"}, {Column: "m", Key: "k1"}, {Column: "m", Key: "k2"}}}, c05Universe[v])))
		}
	}
	return out
}

func (e *c05Env) descBatch(ch []c05Change) []string {
	var out []string
	for _, c := range ch {
		out = append(out, fmt.Sprintf("%s: v%d->v%d", c05UUIDs[c.U][34:], c.Old, c.New))
	}
	return out
}

func runC05(r *ev.Run) {
	nvals, nuuids, d2vals, d2max := 4, 3, 3, 2
	d2paths := []string{"apply"}
	if r.Tier == "thorough" {
		nvals, d2vals, d2max = 6, 4, 3
		d2paths = []string{"apply", "populate2"}
		r.SetDeadline(25 * 60 * 1e9)
	} else {
		r.SetDeadline(100 * 1e9)
	}
	r.Set("rule", "state = valid table content over the row universe; transition = one batch (net change between two valid contents) applied in one row order through one path; non-trivial = batch in which an indexed value moves from one row to another")
	r.Assume("batches end in a content without schema-index duplicates (a server never commits one); the cache is driven directly, no network")
	r.Assume("multi-column index keys are compared as partitions of rows (the implementation hashes them)")
	for _, cfg := range c05Cfgs {
		// depth 1
		e := newC05Env(cfg, nvals, nuuids)
		var valid []int
		for c := 0; c < e.nstates(); c++ {
			if e.valid(e.decode(c)) {
				valid = append(valid, c)
			}
		}
		r.Add("states", int64(len(valid)))
		par.For(len(valid), r.Expired, func(i int) {
			s := e.decode(valid[i])
			for _, c2 := range valid {
				if c2 == valid[i] {
					continue
				}
				s2 := e.decode(c2)
				ch := c05Diff(s, s2)
				mv := e.moves(ch)
				for _, path := range c05Paths {
					par.Perms(len(ch), func(order []int) bool {
						tc := e.newCache()
						if err := e.build(tc, s); err != nil {
							panic(err)
						}
						err := e.apply(tc, path, ch, order)
						r.Add("transitions", 1)
						if mv {
							r.Add("transitions_with_moving_index_value", 1)
							r.Distinct("nontrivial", fmt.Sprintf("%s/%v/%v", cfg.name, s, s2))
						}
						var kind, typ, msg string
						if err != nil {
							kind, typ, msg = "error", "-", err.Error()
						} else {
							kind, typ, msg = e.check(tc, s2, true)
						}
						if msg != "" {
							mvs := "nomove"
							if mv {
								mvs = "move"
							}
							r.Violation(fmt.Sprintf("c05.%s.%s.%s.%s", path, typ, kind, mvs),
								fmt.Sprintf("[%s] %s", cfg.name, msg),
								c05Case{cfg.name, path, e.descState(s), nil, e.descBatch(ch), append([]int{}, order...), msg, []interface{}{s, s2}})
						}
						r.Distinct("outcomes", kind+typ)
						return true
					})
				}
			}
			// a reconnect: the cache is purged and filled again with the contents the database has by then (a monitor reply)
			for _, c2 := range valid {
				s2 := e.decode(c2)
				tc := e.newCache()
				if err := e.build(tc, s); err != nil {
					panic(err)
				}
				tc.Purge(e.dbm)
				r.Add("transitions", 1)
				r.Add("purge_transitions", 1)
				empty := make(c05State, len(s))
				for k := range empty {
					empty[k] = -1
				}
				kind, typ, msg := e.check(tc, empty, true)
				step := "after-purge"
				if msg == "" {
					reply := ovsdb.TableUpdates2{"T": {}}
					for k, v := range s2 {
						if v >= 0 {
							reply["T"][c05UUIDs[k]] = &ovsdb.RowUpdate2{Initial: e.row(v, c05UUIDs[k])}
						}
					}
					step = "after-purge-and-refill"
					if err := tc.Populate2(reply); err != nil {
						kind, typ, msg = "error", "-", err.Error()
					} else {
						kind, typ, msg = e.check(tc, s2, true)
					}
				}
				if msg != "" {
					r.Violation(fmt.Sprintf("c05.purge.%s.%s.%s", step, typ, kind), fmt.Sprintf("[%s] %s: %s", cfg.name, step, msg),
						c05Case{cfg.name, "purge+populate2", e.descState(s), nil, e.descState(s2), nil, msg, []interface{}{s, s2}})
				}
			}
			if i < 2 && len(valid) > 10 {
				r.Sample(map[string]interface{}{"index_config": cfg.name, "start": e.descState(s), "example_batch_to": e.descState(e.decode(valid[(i+7)%len(valid)]))})
			}
		})
		// refused operations: a checked Create / Update that would duplicate a schema-index value is refused and must leave
		// every index as it was (followed, at depth 2, by an operation that is accepted)
		hasSchema := false
		for _, ix := range e.indexes {
			if ix.schema {
				hasSchema = true
			}
		}
		if hasSchema {
			par.For(len(valid), r.Expired, func(i int) {
				s := e.decode(valid[i])
				for u := range s {
					for v := 0; v < e.nvals; v++ {
						if s[u] == v {
							continue
						}
						s2 := append(c05State{}, s...)
						s2[u] = v
						if e.valid(s2) {
							continue
						}
						tc := e.newCache()
						if err := e.build(tc, s); err != nil {
							panic(err)
						}
						var err error
						op := "Create"
						if s[u] < 0 {
							err = tc.Table("T").Create(c05UUIDs[u], e.mk(c05UUIDs[u], c05Universe[v]), true)
						} else {
							op = "Update"
							_, err = tc.Table("T").Update(c05UUIDs[u], e.mk(c05UUIDs[u], c05Universe[v]), true)
						}
						r.Add("transitions", 1)
						r.Add("refused_operations", 1)
						cse := c05Case{cfg.name, "checked " + op, e.descState(s), nil, []string{fmt.Sprintf("%s %s := value %d (refused)", op, c05UUIDs[u][34:], v)}, nil, "", []interface{}{s}}
						if err == nil {
							r.Violation("c05.checked-"+op+".duplicate-accepted", fmt.Sprintf("[%s] checked %s of %s with value %d duplicates a schema index value and is accepted", cfg.name, op, c05UUIDs[u][34:], v), cse)
							continue
						}
						if kind, typ, msg := e.check(tc, s, true); msg != "" {
							cse.Msg = msg
							r.Violation(fmt.Sprintf("c05.after-refused-%s.%s.%s", op, typ, kind), fmt.Sprintf("[%s] after the refused %s of %s (value %d): %s", cfg.name, op, c05UUIDs[u][34:], v, msg), cse)
							continue
						}
						// and the cache is as usable as before: every accepted single-row operation from s still works
						for u2 := range s {
							for v2 := -1; v2 < e.nvals; v2++ {
								if s[u2] == v2 {
									continue
								}
								s3 := append(c05State{}, s...)
								s3[u2] = v2
								if !e.valid(s3) || (u2+v2+u+v)%3 != 0 {
									continue
								}
								tc2 := e.newCache()
								_ = e.build(tc2, s)
								if s[u] < 0 {
									_ = tc2.Table("T").Create(c05UUIDs[u], e.mk(c05UUIDs[u], c05Universe[v]), true)
								} else {
									_, _ = tc2.Table("T").Update(c05UUIDs[u], e.mk(c05UUIDs[u], c05Universe[v]), true)
								}
								var err2 error
								switch {
								case s[u2] < 0:
									err2 = tc2.Table("T").Create(c05UUIDs[u2], e.mk(c05UUIDs[u2], c05Universe[v2]), true)
								case v2 < 0:
									err2 = tc2.Table("T").Delete(c05UUIDs[u2])
								default:
									_, err2 = tc2.Table("T").Update(c05UUIDs[u2], e.mk(c05UUIDs[u2], c05Universe[v2]), true)
								}
								r.Add("transitions", 1)
								if err2 != nil {
									cse.Msg = err2.Error()
									r.Violation("c05.after-refused-"+op+".next-operation-refused", fmt.Sprintf("[%s] after the refused %s of %s (value %d), the valid operation %s -> value %d is refused: %v", cfg.name, op, c05UUIDs[u][34:], v, c05UUIDs[u2][34:], v2, err2), cse)
									continue
								}
								if kind, typ, msg := e.check(tc2, s3, true); msg != "" {
									cse.Msg = msg
									r.Violation(fmt.Sprintf("c05.after-refused-%s.then.%s.%s", op, typ, kind), fmt.Sprintf("[%s] after the refused %s of %s (value %d) and then %s -> value %d: %s", cfg.name, op, c05UUIDs[u][34:], v, c05UUIDs[u2][34:], v2, msg), cse)
								}
							}
						}
					}
				}
			})
		}
		// depth 2 on a smaller universe: batch1 (identity order) then batch2 (all orders)
		e2 := newC05Env(cfg, d2vals, nuuids)
		var v2 []int
		for c := 0; c < e2.nstates(); c++ {
			if e2.valid(e2.decode(c)) {
				v2 = append(v2, c)
			}
		}
		par.For(len(v2), r.Expired, func(i int) {
			s0 := e2.decode(v2[i])
			for _, c1 := range v2 {
				if c1 == v2[i] {
					continue
				}
				s1 := e2.decode(c1)
				ch1 := c05Diff(s0, s1)
				if len(ch1) > d2max {
					continue
				}
				id := make([]int, len(ch1))
				for k := range id {
					id[k] = k
				}
				for _, c2 := range v2 {
					if c2 == c1 {
						continue
					}
					s2 := e2.decode(c2)
					ch2 := c05Diff(s1, s2)
					if len(ch2) > d2max {
						continue
					}
					for _, path := range d2paths {
						par.Perms(len(ch2), func(order []int) bool {
							tc := e2.newCache()
							if err := e2.build(tc, s0); err != nil {
								panic(err)
							}
							if err := e2.apply(tc, path, ch1, id); err != nil {
								return true // reported at depth 1
							}
							err := e2.apply(tc, path, ch2, order)
							r.Add("transitions", 1)
							r.Add("depth2_paths", 1)
							var kind, typ, msg string
							if err != nil {
								kind, typ, msg = "error", "-", err.Error()
							} else {
								kind, typ, msg = e2.check(tc, s2, false)
							}
							if msg != "" {
								mvs := "nomove"
								if e2.moves(ch2) || e2.moves(ch1) {
									mvs = "move"
								}
								r.Violation(fmt.Sprintf("c05.%s.%s.%s.%s", path, typ, kind, mvs),
									fmt.Sprintf("[%s] depth2: %s", cfg.name, msg),
									c05Case{cfg.name, path, e2.descState(s0), e2.descBatch(ch1), e2.descBatch(ch2), append([]int{}, order...), msg, []interface{}{s0, s1, s2}})
							}
							return true
						})
					}
				}
			}
		})
	}
	r.Set("traces_validated_against_impl", r.Get("transitions"))
	r.Set("distinct_nontrivial", r.DistinctCount("nontrivial"))
	r.Set("evaluations", r.Get("transitions"))
	r.Set("max_depth", 2)
	r.Set("index_configs", len(c05Cfgs))
	r.Set("paths", c05Paths)
	r.Set("bound", fmt.Sprintf("rows<=%d, row universe %d (depth1, all batches) / %d (depth2, batches of <=%d rows), every row order of every batch", nuuids, nvals, d2vals, d2max))
}
