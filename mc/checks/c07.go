package checks

// C07 — notifications are the exact difference made by the transaction.

import (
	"encoding/json"
	"fmt"
	"sort"
	"strings"

	"github.com/ovn-org/libovsdb/ovsdb"

	"verif/mc/dbx"
	"verif/mc/ev"
	rm "verif/mc/refmodel"
	"verif/mc/schemas"
	"verif/mc/sys"
)

func init() { register("C07", "model_checking", runC07) }

type view map[string]map[string]rm.Row // table -> uuid -> monitored columns

func (v view) String() string {
	var out []string
	for t, rows := range v {
		for u, r := range rows {
			out = append(out, t+"/"+short(u)+": "+r.String())
		}
	}
	sort.Strings(out)
	return strings.Join(out, "\n")
}

func (v view) clone() view {
	o := view{}
	for t, rows := range v {
		o[t] = map[string]rm.Row{}
		for u, r := range rows {
			o[t][u] = r.Clone()
		}
	}
	return o
}

func reqCols(s *rm.Schema, t string, req *ovsdb.MonitorRequest) []string {
	if len(req.Columns) > 0 {
		return req.Columns
	}
	return s.Tables[t].ColNames()
}

func mkView(d *rm.DB, req map[string]*ovsdb.MonitorRequest) view {
	v := view{}
	for t, rq := range req {
		v[t] = map[string]rm.Row{}
		for u, r := range d.T[t] {
			row := rm.Row{}
			for _, c := range reqCols(d.S, t, rq) {
				row[c] = r[c].Clone()
			}
			v[t][u] = row
		}
	}
	return v
}

// expected view after the transaction given the select flags
func expectedView(pre, post view, req map[string]*ovsdb.MonitorRequest) (view, int) {
	exp := view{}
	changes := 0
	for t, rq := range req {
		sel := rq.Select
		if sel == nil {
			sel = ovsdb.NewDefaultMonitorSelect()
		}
		exp[t] = map[string]rm.Row{}
		for u, r := range pre[t] {
			n, ok := post[t][u]
			switch {
			case !ok: // deleted
				if sel.Delete() {
					changes++
				} else {
					exp[t][u] = r.Clone()
				}
			case n.String() != r.String(): // modified
				if sel.Modify() {
					exp[t][u] = n.Clone()
					changes++
				} else {
					exp[t][u] = r.Clone()
				}
			default:
				exp[t][u] = r.Clone()
			}
		}
		for u, n := range post[t] {
			if _, ok := pre[t][u]; !ok && sel.Insert() {
				exp[t][u] = n.Clone()
				changes++
			}
		}
	}
	return exp, changes
}

func fullRow(s *rm.Schema, t string, cols []string, given rm.Row) rm.Row {
	row := rm.Row{}
	for _, c := range cols {
		if v, ok := given[c]; ok {
			row[c] = v
		} else {
			row[c] = s.Tables[t].Cols[c].Default()
		}
	}
	return row
}

// applyV1 applies an RFC 7047 "update" notification to a view. Returns an error text for illegal content.
func applyV1(s *rm.Schema, v view, req map[string]*ovsdb.MonitorRequest, tu ovsdb.TableUpdates) (string, int) {
	empty := 0
	for t, rows := range tu {
		rq, ok := req[t]
		if !ok {
			return "table " + t + " was not requested", 0
		}
		cols := reqCols(s, t, rq)
		allowed := map[string]bool{"_uuid": true}
		for _, c := range cols {
			allowed[c] = true
		}
		if len(rows) == 0 {
			empty++
		}
		for u, ru := range rows {
			conv := func(r *ovsdb.Row) (rm.Row, string) {
				if r == nil {
					return nil, ""
				}
				for c := range *r {
					if !allowed[c] {
						return nil, fmt.Sprintf("column %s.%s was not requested", t, c)
					}
				}
				row, err := sys.FromOvsRow(s.Tables[t], *r)
				if err != nil {
					return nil, err.Error()
				}
				delete(row, "_uuid")
				return row, ""
			}
			nw, e1 := conv(ru.New)
			old, e2 := conv(ru.Old)
			if e1+e2 != "" {
				return e1 + e2, 0
			}
			_, exists := v[t][u]
			switch {
			case ru.New != nil && ru.Old == nil:
				if exists {
					return fmt.Sprintf("insert of row %s/%s that the monitor already has", t, short(u)), 0
				}
				v[t][u] = fullRow(s, t, cols, nw)
			case ru.New == nil && ru.Old != nil:
				if !exists {
					return fmt.Sprintf("delete of unknown row %s/%s", t, short(u)), 0
				}
				for c, x := range old {
					if !x.Equal(v[t][u][c]) {
						return fmt.Sprintf("delete of %s/%s: old.%s=%s but the row had %s", t, short(u), c, x, v[t][u][c]), 0
					}
				}
				delete(v[t], u)
			case ru.New != nil && ru.Old != nil:
				if !exists {
					return fmt.Sprintf("modify of unknown row %s/%s", t, short(u)), 0
				}
				for c, x := range old {
					if !x.Equal(v[t][u][c]) {
						return fmt.Sprintf("modify of %s/%s: old.%s=%s but the row had %s", t, short(u), c, x, v[t][u][c]), 0
					}
				}
				v[t][u] = fullRow(s, t, cols, nw)
			default:
				return fmt.Sprintf("row update for %s/%s with neither old nor new", t, short(u)), 0
			}
		}
	}
	return "", empty
}

// applyV2 applies an "update2" notification.
func applyV2(s *rm.Schema, v view, req map[string]*ovsdb.MonitorRequest, tu ovsdb.TableUpdates2) (string, int) {
	empty := 0
	for t, rows := range tu {
		rq, ok := req[t]
		if !ok {
			return "table " + t + " was not requested", 0
		}
		cols := reqCols(s, t, rq)
		allowed := map[string]bool{"_uuid": true}
		for _, c := range cols {
			allowed[c] = true
		}
		if len(rows) == 0 {
			empty++
		}
		for u, ru := range rows {
			conv := func(r *ovsdb.Row) (rm.Row, string) {
				for c := range *r {
					if !allowed[c] {
						return nil, fmt.Sprintf("column %s.%s was not requested", t, c)
					}
				}
				row, err := sys.FromOvsRow(s.Tables[t], *r)
				if err != nil {
					return nil, err.Error()
				}
				delete(row, "_uuid")
				return row, ""
			}
			_, exists := v[t][u]
			n := 0
			for _, p := range []*ovsdb.Row{ru.Initial, ru.Insert, ru.Modify, ru.Delete} {
				if p != nil {
					n++
				}
			}
			if n != 1 {
				return fmt.Sprintf("row update2 for %s/%s has %d of initial/insert/modify/delete", t, short(u), n), 0
			}
			switch {
			case ru.Insert != nil || ru.Initial != nil:
				src := ru.Insert
				if src == nil {
					src = ru.Initial
				}
				row, e := conv(src)
				if e != "" {
					return e, 0
				}
				if exists {
					return fmt.Sprintf("insert of row %s/%s that the monitor already has", t, short(u)), 0
				}
				v[t][u] = fullRow(s, t, cols, row)
			case ru.Delete != nil:
				if !exists {
					return fmt.Sprintf("delete of unknown row %s/%s", t, short(u)), 0
				}
				delete(v[t], u)
			case ru.Modify != nil:
				if !exists {
					return fmt.Sprintf("modify of unknown row %s/%s", t, short(u)), 0
				}
				diff, e := conv(ru.Modify)
				if e != "" {
					return e, 0
				}
				if len(diff) == 0 {
					empty++
				}
				for c, d := range diff {
					col := s.Tables[t].Cols[c]
					cur := v[t][u][c]
					switch {
					case col.IsMap:
						nv := cur.Clone()
						for k, x := range d.Map {
							if y, ok := nv.Map[k]; ok && y == x {
								delete(nv.Map, k)
							} else {
								nv.Map[k] = x
							}
						}
						v[t][u][c] = nv
					case col.Max == 1:
						v[t][u][c] = d
					default:
						var out []rm.Atom
						for _, a := range cur.Set {
							if !d.Has(a) {
								out = append(out, a)
							}
						}
						for _, a := range d.Set {
							if !cur.Has(a) {
								out = append(out, a)
							}
						}
						v[t][u][c] = rm.SetOf(out...)
					}
				}
			}
		}
	}
	return "", empty
}

func selName(s *ovsdb.MonitorSelect) string {
	if s == nil {
		return "default"
	}
	b := func(x bool) string {
		if x {
			return "1"
		}
		return "0"
	}
	return b(s.Initial()) + b(s.Insert()) + b(s.Delete()) + b(s.Modify())
}

func c07Monitors(dbs *schemas.DB, level int) []dbx.MonSpec {
	var ms []dbx.MonSpec
	id := 0
	add := func(method string, req map[string]*ovsdb.MonitorRequest) {
		id++
		ms = append(ms, dbx.MonSpec{Method: method, ID: fmt.Sprintf(`"mon%d"`, id), Req: req})
	}
	sels := []*ovsdb.MonitorSelect{ovsdb.NewDefaultMonitorSelect(), nil, ovsdb.NewMonitorSelect(true, true, true, false), ovsdb.NewMonitorSelect(true, false, true, true), ovsdb.NewMonitorSelect(true, true, false, true), ovsdb.NewMonitorSelect(false, false, false, true)}
	if level > 0 {
		sels = nil
		for i := 0; i < 16; i++ {
			sels = append(sels, ovsdb.NewMonitorSelect(i&8 != 0, i&4 != 0, i&2 != 0, i&1 != 0))
		}
		sels = append(sels, nil)
	}
	colsets := map[string][][]string{
		"R":  {nil, {"name"}, {"sset", "wset", "wopt"}, {"smap", "wmap", "kmap", "sopt"}},
		"N1": {nil, {"name"}, {"next"}},
	}
	for _, method := range []string{"monitor", "monitor_cond"} {
		// all tables, all columns, each select set
		for _, sel := range sels {
			req := map[string]*ovsdb.MonitorRequest{}
			for _, t := range dbs.Tables() {
				req[t] = &ovsdb.MonitorRequest{Columns: dbs.Columns(t), Select: sel}
			}
			add(method, req)
		}
		// table subsets x column subsets
		for _, rc := range colsets["R"] {
			for _, nc := range colsets["N1"] {
				req := map[string]*ovsdb.MonitorRequest{"R": {Columns: rc, Select: ovsdb.NewDefaultMonitorSelect()}, "N1": {Columns: nc, Select: ovsdb.NewDefaultMonitorSelect()}}
				if rc == nil {
					req["R"].Columns = dbs.Columns("R")
				}
				if nc == nil {
					req["N1"].Columns = dbs.Columns("N1")
				}
				add(method, req)
			}
		}
		add(method, map[string]*ovsdb.MonitorRequest{"N2": {Columns: dbs.Columns("N2"), Select: ovsdb.NewDefaultMonitorSelect()}})
		// "columns" omitted: every column is monitored (RFC 7047 4.1.5); "select" omitted too: every kind of change
		add(method, map[string]*ovsdb.MonitorRequest{"R": {Select: ovsdb.NewDefaultMonitorSelect()}, "N1": {Columns: []string{"name"}, Select: ovsdb.NewDefaultMonitorSelect()}})
		add(method, map[string]*ovsdb.MonitorRequest{"R": {}, "PR": {}})
		add(method, map[string]*ovsdb.MonitorRequest{}) // no table at all
		add(method, map[string]*ovsdb.MonitorRequest{"R": {Columns: []string{"name"}, Select: ovsdb.NewMonitorSelect(true, true, true, false)}, "N3": {Columns: dbs.Columns("N3"), Select: ovsdb.NewMonitorSelect(true, false, false, true)}})
	}
	return ms
}

func runC07(r *ev.Run) {
	level, depth := 0, 2
	if r.Tier == "thorough" {
		level, depth = 1, 3
		r.SetDeadline(40 * 60 * 1e9)
	} else {
		r.SetDeadline(150 * 1e9)
	}
	r.Set("rule", "state = history of committed S-ref transactions; transition = one transaction with N monitors attached through the server's own Monitor/MonitorCond handlers on recording rpc2 codecs (table subsets x column subsets x select flags x both encodings); every (transition, monitor) pair is one evaluation; non-trivial = pair in which the monitored view changed")
	r.Assume("a column omitted from an insert/new row means its default (ovsdb-server.7 for update2; same reading for v1)")
	r.Assume("empty containers ({\"T\":{}}, {\"modify\":{}}) and the informational v1 old row are counted, not flagged")
	dbs := srefDB(false)
	alpha := srefAlphabet(level)
	mons := c07Monitors(dbs, level)
	r.Set("alphabet_size", len(alpha))
	r.Set("monitor_requests", len(mons))
	ref := rm.FromOvsdb(dbs.Schema)
	cfg := dbx.Config{DBS: dbs, Alphabet: alpha, Depth: depth, Monitors: mons}
	cfg.OnEdge = func(e *dbx.Edge) {
		if e.Panic != "" {
			r.Violation("c07.panic."+e.PanicAt, fmt.Sprintf("%s: %s at %s", histStr(e), e.Panic, e.PanicAt), mkCase("S-ref", e, e.Panic, ""))
			return
		}
		for _, m := range e.Mons {
			enc := "v1"
			wantMethod := "update"
			if m.Spec.Method != "monitor" {
				enc, wantMethod = "v2", "update2"
			}
			var sels []string
			for t, rq := range m.Spec.Req {
				sels = append(sels, t+":"+selName(rq.Select))
			}
			sort.Strings(sels)
			feat := fmt.Sprintf("%s.tables%d.sel_%s", enc, len(m.Spec.Req), strings.Join(sels, "_"))
			if len(feat) > 60 {
				feat = feat[:60]
			}
			mc := func(msg string) interface{} {
				return map[string]interface{}{"history": e.HistName, "transaction": e.Txn.Name, "monitor_method": m.Spec.Method, "monitor_request": m.Spec.Req,
					"notifications": m.Notes, "pre_state": e.Pre.Dump(), "post_state": e.Post.Dump(), "msg": msg}
			}
			if m.Err != nil {
				r.Violation("c07.monitor-setup."+enc, fmt.Sprintf("monitor registration failed: %v", m.Err), mc(m.Err.Error()))
				continue
			}
			r.Add("evaluations", 1)
			pre := mkView(e.Pre, m.Spec.Req)
			post := pre
			if e.Accepted {
				post = mkView(e.Post, m.Spec.Req)
			}
			exp, changes := expectedView(pre, post, m.Spec.Req)
			if changes > 0 {
				r.Distinct("nontrivial", fmt.Sprintf("%s|%s|%s", e.Pre.Dump(), e.Txn.Name, m.Spec.ID))
			}
			if len(m.Notes) > 1 {
				r.Violation("c07.more-than-one-notification."+feat, fmt.Sprintf("%s: %d notifications for one transaction", histStr(e), len(m.Notes)), mc("several notifications"))
				continue
			}
			if !e.Accepted && len(m.Notes) > 0 {
				r.Violation("c07.notified-on-failure."+feat, fmt.Sprintf("%s: notification for a rejected transaction", histStr(e)), mc("notified on failure"))
				continue
			}
			got := pre.clone()
			if len(m.Notes) == 1 {
				n := m.Notes[0]
				if n.Method != wantMethod {
					r.Violation("c07.method."+enc, fmt.Sprintf("%s: %s monitor notified with method %q instead of %q", histStr(e), m.Spec.Method, n.Method, wantMethod), mc("wrong method "+n.Method))
				}
				var params []json.RawMessage
				if err := json.Unmarshal(n.Params, &params); err != nil || len(params) != 2 {
					r.Violation("c07.params."+enc, fmt.Sprintf("%s: notification params are not [id, updates]: %s", histStr(e), string(n.Params)), mc("bad params"))
					continue
				}
				if string(params[0]) != m.Spec.ID {
					r.Violation("c07.params-id."+enc, fmt.Sprintf("%s: notification carries id %s, monitor was registered with %s", histStr(e), params[0], m.Spec.ID), mc("bad id"))
				}
				var msg string
				var empty int
				if enc == "v1" {
					var tu ovsdb.TableUpdates
					if err := json.Unmarshal(params[1], &tu); err != nil {
						msg = "undecodable table-updates: " + err.Error()
					} else {
						msg, empty = applyV1(ref, got, m.Spec.Req, tu)
					}
				} else {
					var tu ovsdb.TableUpdates2
					if err := json.Unmarshal(params[1], &tu); err != nil {
						msg = "undecodable table-updates2: " + err.Error()
					} else {
						msg, empty = applyV2(ref, got, m.Spec.Req, tu)
					}
				}
				if msg != "" {
					r.Violation("c07.illegal-content."+feat, fmt.Sprintf("%s: %s", histStr(e), msg), mc(msg))
					continue
				}
				if empty > 0 {
					r.Add("noted_empty_containers", int64(empty))
				}
				if changes == 0 && empty == 0 && got.String() == pre.String() {
					// a notification without any visible content
					r.Add("noted_contentless_notifications", 1)
				}
			}
			if got.String() != exp.String() {
				kind := "apply-mismatch"
				if len(m.Notes) == 0 {
					kind = "missing-notification"
				} else if changes == 0 {
					kind = "spurious-change"
				}
				r.Violation("c07."+kind+"."+feat, fmt.Sprintf("%s [%s]: monitored view after applying the notification differs from the database's:\nexpected:\n%s\ngot:\n%s", histStr(e), m.Spec.Method, exp, got), mc("view mismatch\nexpected:\n"+exp.String()+"\ngot:\n"+got.String()))
			}
			r.Distinct("outcomes", fmt.Sprintf("%s/%d/%v", enc, len(m.Notes), changes > 0))
			if changes > 0 && len(e.Hist) == 1 && m.Spec.ID == `"mon3"` {
				r.Sample(map[string]interface{}{"history": e.HistName, "txn": e.Txn.Name, "monitor": m.Spec.Method, "request": m.Spec.Req, "notification": string(m.Notes[0].Params)})
			}
		}
	}
	dbx.Explore(r, cfg)
	r.Set("traces_validated_against_impl", r.Get("evaluations"))
	r.Set("distinct_nontrivial", r.DistinctCount("nontrivial"))
	r.Set("bound", fmt.Sprintf("alphabet level %d; every transaction from every state of depth <= %d; %d monitor requests per transition", level, depth, len(mons)))
}
