package checks

// C20 — models generated from a schema fit that schema and behave like generic models.

import (
	"bytes"
	"encoding/json"
	"fmt"
	"os"
	"os/exec"
	"path/filepath"
	"sort"
	"strings"

	"github.com/ovn-org/libovsdb/modelgen"
	"github.com/ovn-org/libovsdb/ovsdb"

	"verif/mc/ev"
)

func init() { register("C20", "exploration", runC20) }

// c20Schema builds a schema with one column per type case, spread over tables whose names stress the naming code.
func c20Schema(variant int, jsonSafe bool) string {
	atoms := []string{"integer", "real", "boolean", "string", "uuid"}
	var cols []string
	add := func(name, typ string) { cols = append(cols, fmt.Sprintf("%q:{\"type\":%s}", name, typ)) }
	for _, a := range atoms {
		add("plain_"+a, fmt.Sprintf("%q", a))
		add("opt_"+a, fmt.Sprintf(`{"key":{"type":%q},"min":0,"max":1}`, a))
		add("set_"+a, fmt.Sprintf(`{"key":{"type":%q},"min":0,"max":"unlimited"}`, a))
		add("set1n_"+a, fmt.Sprintf(`{"key":{"type":%q},"min":1,"max":5}`, a))
		add("one_"+a, fmt.Sprintf(`{"key":{"type":%q},"min":1,"max":1}`, a))
		// bounds left out: both default to 1 (RFC 7047 3.2)
		add("optnomax_"+a, fmt.Sprintf(`{"key":{"type":%q},"min":0}`, a))
		add("setnomin_"+a, fmt.Sprintf(`{"key":{"type":%q},"max":"unlimited"}`, a))
		add("keyonly_"+a, fmt.Sprintf(`{"key":{"type":%q}}`, a))
		add("keystr_"+a, fmt.Sprintf(`{"key":%q}`, a))
		for _, v := range atoms {
			if jsonSafe && (a == "real" || a == "boolean") {
				continue // without generated copy methods models are cloned through JSON, which cannot encode such keys (C13 finding)
			}
			add("map_"+a+"_"+v, fmt.Sprintf(`{"key":{"type":%q},"value":{"type":%q},"min":0,"max":"unlimited"}`, a, v))
		}
	}
	add("enum_str", `{"key":{"type":"string","enum":["set",["one","two_words","with-dash"]]}}`)
	add("enum_single", `{"key":{"type":"string","enum":"only"}}`)
	add("opt_enum", `{"key":{"type":"string","enum":["set",["a","b"]]},"min":0,"max":1}`)
	add("set_enum", `{"key":{"type":"string","enum":["set",["red","green","blue"]]},"min":0,"max":"unlimited"}`)
	add("map_enum_key", `{"key":{"type":"string","enum":["set",["k1","k2"]]},"value":{"type":"string"},"min":0,"max":"unlimited"}`)
	add("ref_strong", `{"key":{"type":"uuid","refTable":"Logical_Switch_Port","refType":"strong"},"min":0,"max":"unlimited"}`)
	add("ref_weak", `{"key":{"type":"uuid","refTable":"Logical_Switch_Port","refType":"weak"},"min":0,"max":1}`)
	// names needing initialism / camel-case handling
	for _, n := range []string{"external_ids", "ip_address", "tcp_flags_mask", "acls", "qos_rules", "_leading", "x", "ab", "id", "uuid_name", "type", "func", "range", "vlan_ids", "dns_records", "MixedCase_Name", "n1_2"} {
		add(n, `"string"`)
	}
	sort.Strings(cols)
	body := strings.Join(cols, ",")
	small := `"name":{"type":"string"},"other_config":{"type":{"key":{"type":"string"},"value":{"type":"string"},"min":0,"max":"unlimited"}}`
	tables := []string{
		fmt.Sprintf(`"Everything":{"columns":{%s},"isRoot":true,"indexes":[["plain_string"],["plain_integer","opt_string"]]}`, body),
		fmt.Sprintf(`"Logical_Switch_Port":{"columns":{%s}}`, small),
		fmt.Sprintf(`"ACL":{"columns":{%s},"isRoot":true}`, small),
		fmt.Sprintf(`"QoS":{"columns":{%s},"isRoot":true}`, small),
		fmt.Sprintf(`"nb_global":{"columns":{%s},"isRoot":true}`, small),
		fmt.Sprintf(`"IPFIX_config":{"columns":{%s},"isRoot":true}`, small),
		fmt.Sprintf(`"Abc":{"columns":{%s},"isRoot":true}`, small),
		// the shortest names: a one-letter table with a one-letter enum column (type alias of two characters)
		`"T":{"columns":{"x":{"type":{"key":{"type":"string","enum":["set",["p","q"]]}}},"y":{"type":{"key":{"type":"string","enum":["set",["p","q"]]},"min":0,"max":"unlimited"}}},"isRoot":true}`,
	}
	if variant > 0 {
		tables = append(tables, fmt.Sprintf(`"Flow_Sample_Collector_Set":{"columns":{%s,"bridge":{"type":{"key":{"type":"uuid","refTable":"ACL"}}}},"isRoot":true}`, small),
			fmt.Sprintf(`"T2":{"columns":{%s},"isRoot":true}`, body))
	}
	return fmt.Sprintf(`{"name":"Gen_DB","version":"2.3.4","tables":{%s}}`, strings.Join(tables, ","))
}

// generate runs the generator in-process and returns file name -> contents.
func c20Generate(schema ovsdb.DatabaseSchema, pkg string, extended, enumTypes bool) (map[string][]byte, error) {
	gen, err := modelgen.NewGenerator()
	if err != nil {
		return nil, err
	}
	out := map[string][]byte{}
	for name, table := range schema.Tables {
		table := table
		tmpl := modelgen.NewTableTemplate()
		args := modelgen.GetTableTemplateData(pkg, name, &table)
		args.WithExtendedGen(extended)
		args.WithEnumTypes(enumTypes)
		b, err := gen.Format(tmpl, args)
		if err != nil {
			return nil, fmt.Errorf("table %s: %w", name, err)
		}
		out[modelgen.FileName(name)] = b
	}
	b, err := gen.Format(modelgen.NewDBTemplate(), modelgen.GetDBTemplateData(pkg, schema))
	if err != nil {
		return nil, fmt.Errorf("model.go: %w", err)
	}
	out["model.go"] = b
	return out, nil
}

const c20Main = `package main

import (
	"fmt"
	"os"
	"reflect"
	"sort"

	gen "gen/gendb"

	"github.com/ovn-org/libovsdb/model"
	"github.com/ovn-org/libovsdb/ovsdb"
)

func fail(format string, a ...interface{}) { fmt.Printf("FAIL "+format+"\n", a...); failures++ }

var failures int

// universe of values for a field type: three distinct values, the first being the zero value
func universe(t reflect.Type) []reflect.Value {
	mk := func(vals ...interface{}) []reflect.Value {
		var out []reflect.Value
		for _, v := range vals {
			out = append(out, reflect.ValueOf(v).Convert(t))
		}
		return out
	}
	switch t.Kind() {
	case reflect.String:
		return mk("", "a", "b")
	case reflect.Int:
		return mk(0, 1, 2)
	case reflect.Float64:
		return mk(0.0, 1.5, -2.0)
	case reflect.Bool:
		return mk(false, true)
	case reflect.Ptr:
		out := []reflect.Value{reflect.Zero(t)}
		for _, e := range universe(t.Elem()) {
			p := reflect.New(t.Elem())
			p.Elem().Set(e)
			out = append(out, p)
		}
		return out
	case reflect.Slice:
		el := universe(t.Elem())
		out := []reflect.Value{reflect.Zero(t), reflect.MakeSlice(t, 0, 0)}
		out = append(out, reflect.Append(reflect.MakeSlice(t, 0, 1), el[1%len(el)]))
		out = append(out, reflect.Append(reflect.MakeSlice(t, 0, 2), el[1%len(el)], el[0]))
		out = append(out, reflect.Append(reflect.MakeSlice(t, 0, 2), el[0], el[1%len(el)]))
		return out
	case reflect.Map:
		ks, vs := universe(t.Key()), universe(t.Elem())
		out := []reflect.Value{reflect.Zero(t), reflect.MakeMap(t)}
		m1 := reflect.MakeMap(t)
		m1.SetMapIndex(ks[1%len(ks)], vs[1%len(vs)])
		m2 := reflect.MakeMap(t)
		m2.SetMapIndex(ks[1%len(ks)], vs[0])
		m3 := reflect.MakeMap(t)
		m3.SetMapIndex(ks[0], vs[1%len(vs)])
		m4 := reflect.MakeMap(t)
		m4.SetMapIndex(ks[0], vs[0])
		m5 := reflect.MakeMap(t)
		m5.SetMapIndex(ks[1%len(ks)], vs[1%len(vs)])
		m5.SetMapIndex(ks[0], vs[0])
		return append(out, m1, m2, m3, m4, m5)
	}
	return []reflect.Value{reflect.Zero(t)}
}

// semantic equality of two field values: nil and empty collections are the same value
func same(a, b reflect.Value) bool {
	switch a.Kind() {
	case reflect.Slice, reflect.Map:
		if a.Len() == 0 && b.Len() == 0 {
			return true
		}
	}
	return reflect.DeepEqual(a.Interface(), b.Interface())
}

func call(m interface{}, name string, args ...interface{}) ([]reflect.Value, bool) {
	f := reflect.ValueOf(m).MethodByName(name)
	if !f.IsValid() {
		return nil, false
	}
	var in []reflect.Value
	for _, a := range args {
		in = append(in, reflect.ValueOf(a))
	}
	return f.Call(in), true
}

func main() {
	extended := os.Args[1] == "true"
	schema := gen.Schema()
	cdb, err := gen.FullDatabaseModel()
	if err != nil {
		fail("FullDatabaseModel: %v", err)
		os.Exit(1)
	}
	dbm, errs := model.NewDatabaseModel(schema, cdb)
	if len(errs) > 0 {
		fail("NewDatabaseModel: %v", errs)
		fmt.Printf("DONE failures=%d\n", failures)
		return
	}
	types := dbm.Types()
	var tables []string
	for t := range types {
		tables = append(tables, t)
	}
	sort.Strings(tables)
	if len(tables) != len(schema.Tables) {
		fail("model has %d tables, schema %d", len(tables), len(schema.Tables))
	}
	cases := 0
	for _, tn := range tables {
		pt := types[tn]
		st := pt.Elem()
		ts := schema.Tables[tn]
		// every column has a field of exactly the native type
		byCol := map[string]reflect.StructField{}
		for i := 0; i < st.NumField(); i++ {
			byCol[st.Field(i).Tag.Get("ovsdb")] = st.Field(i)
		}
		for cn, cs := range ts.Columns {
			f, ok := byCol[cn]
			if !ok {
				fail("table %s: column %s has no field", tn, cn)
				continue
			}
			want := ovsdb.NativeType(cs)
			// an enum alias is an alias (=), so the types are identical
			if f.Type != want {
				fail("table %s column %s: field %s has type %s, mapper expects %s", tn, cn, f.Name, f.Type, want)
			}
		}
		if _, ok := byCol["_uuid"]; !ok {
			fail("table %s: no _uuid field", tn)
		}
		// copy / equality laws: vary one field at a time over its universe
		for i := 0; i < st.NumField(); i++ {
			f := st.Field(i)
			if f.Tag.Get("ovsdb") == "" || f.Tag.Get("ovsdb") == "_uuid" {
				continue
			}
			uni := universe(f.Type)
			for ai, av := range uni {
				a := reflect.New(st)
				a.Elem().Field(i).Set(av)
				a.Elem().FieldByName("UUID").SetString("11111111-1111-1111-1111-111111111111")
				ai := ai
				// Clone is equal and shares no memory
				cl := model.Clone(a.Interface())
				if !model.Equal(a.Interface(), cl) || !same(reflect.ValueOf(cl).Elem().Field(i), av) {
					fail("table %s field %s value #%d: model.Clone is not equal to its argument: %v vs %v", tn, f.Name, ai, reflect.ValueOf(cl).Elem().Field(i), av)
				}
				if extended {
					res, ok := call(a.Interface(), "DeepCopy")
					if !ok {
						fail("table %s: no DeepCopy method although extended generation is on", tn)
					} else {
						dc := res[0]
						if !same(dc.Elem().Field(i), av) {
							fail("table %s field %s value #%d: DeepCopy differs: %v vs %v", tn, f.Name, ai, dc.Elem().Field(i), av)
						}
						// memory disjoint: mutate the copy
						mutate(dc.Elem().Field(i))
						if !same(a.Elem().Field(i), av) {
							fail("table %s field %s value #%d: modifying the DeepCopy changed the original", tn, f.Name, ai)
						}
					}
				}
				mutate(reflect.ValueOf(cl).Elem().Field(i))
				if !same(a.Elem().Field(i), av) {
					fail("table %s field %s value #%d: modifying the Clone changed the original", tn, f.Name, ai)
				}
				for bi, bv := range uni {
					b := reflect.New(st)
					b.Elem().Field(i).Set(bv)
					b.Elem().FieldByName("UUID").SetString("11111111-1111-1111-1111-111111111111")
					// "equal fields" in the sense of the generic model.Equal (reflect.DeepEqual): nil and empty differ
					wantEq := reflect.DeepEqual(av.Interface(), bv.Interface())
					cases++
					if extended {
						res, ok := call(a.Interface(), "Equals", b.Interface())
						if !ok {
							fail("table %s: no Equals method", tn)
						} else if res[0].Bool() != wantEq {
							fail("table %s field %s (%s): Equals(%v, %v) = %v, fields equal = %v", tn, f.Name, f.Type, av, bv, res[0].Bool(), wantEq)
						}
						res2, _ := call(b.Interface(), "Equals", a.Interface())
						if res2 != nil && res2[0].Bool() != wantEq {
							fail("table %s field %s (%s): Equals is not symmetric on (%v, %v)", tn, f.Name, f.Type, av, bv)
						}
					}
					if got := model.Equal(a.Interface(), b.Interface()); got != wantEq {
						fail("table %s field %s (%s): model.Equal(%v, %v) = %v, fields equal = %v", tn, f.Name, f.Type, av, bv, got, wantEq)
					}
					_ = bi
				}
			}
		}
	}
	fmt.Printf("DONE failures=%d cases=%d tables=%d\n", failures, cases, len(tables))
}

func mutate(f reflect.Value) {
	switch f.Kind() {
	case reflect.Ptr:
		if !f.IsNil() {
			mutate(f.Elem())
		}
	case reflect.Slice:
		if f.Len() > 0 {
			mutate(f.Index(0))
		}
	case reflect.Map:
		for _, k := range f.MapKeys() {
			e := reflect.New(f.Type().Elem()).Elem()
			e.Set(f.MapIndex(k))
			mutate(e)
			f.SetMapIndex(k, e)
		}
		if f.IsNil() {
			return
		}
		nk := reflect.New(f.Type().Key()).Elem()
		mutate(nk)
		f.SetMapIndex(nk, reflect.Zero(f.Type().Elem()))
	case reflect.String:
		f.SetString(f.String() + "!")
	case reflect.Int:
		f.SetInt(f.Int() + 77)
	case reflect.Float64:
		f.SetFloat(f.Float() + 77)
	case reflect.Bool:
		f.SetBool(!f.Bool())
	}
}
`

func goEnv() []string {
	return append(os.Environ(), "GOFLAGS=-mod=mod", "GOPROXY=off", "GOSUMDB=off", "GOTOOLCHAIN=local", "GOCACHE=/verif/.gocache", "CGO_ENABLED=0")
}

func runC20(r *ev.Run) {
	variants := []int{0}
	if r.Tier == "thorough" {
		variants = []int{0, 1}
	}
	r.SetDeadline(30 * 60 * 1e9)
	r.Set("rule", "case = (schema, extended generation on/off, enum types on/off): the generator is run twice in process and compared byte for byte, the output is compiled in a scratch module against /repo, and a generated program loads the model (NewDatabaseModel must report no error), checks every column's field type against ovsdb.NativeType and, for every field, every pair of a per-type value universe: DeepCopy/Clone equal and memory-disjoint, Equals/EqualsModel/model.Equal true exactly when the fields are equal, symmetric; non-trivial = (configuration, table) pair")
	scratch, err := os.MkdirTemp("", "vc-gen")
	if err != nil {
		panic(err)
	}
	defer os.RemoveAll(scratch)
	for _, variant := range variants {
		for _, extended := range []bool{true, false} {
			text := c20Schema(variant, !extended)
			var schema ovsdb.DatabaseSchema
			if err := json.Unmarshal([]byte(text), &schema); err != nil {
				panic(err)
			}
			for _, enums := range []bool{true, false} {
				cfg := fmt.Sprintf("schema%d.extended=%v.enums=%v", variant, extended, enums)
				feature := fmt.Sprintf("extended=%v.enums=%v", extended, enums)
				r.Add("evaluations", 1)
				files, err := c20Generate(schema, "gendb", extended, enums)
				if err != nil {
					r.Violation("c20.generate-error."+feature, fmt.Sprintf("[%s] generation fails: %v", cfg, err), map[string]interface{}{"schema": text})
					continue
				}
				files2, err2 := c20Generate(schema, "gendb", extended, enums)
				if err2 != nil {
					r.Violation("c20.generate-error."+feature, fmt.Sprintf("[%s] second generation fails: %v", cfg, err2), nil)
					continue
				}
				for n, b := range files {
					if !bytes.Equal(b, files2[n]) {
						r.Violation("c20.not-deterministic."+feature, fmt.Sprintf("[%s] file %s differs between two runs of the generator", cfg, n), nil)
					}
				}
				dir := filepath.Join(scratch, strings.ReplaceAll(cfg, "=", "_"))
				os.MkdirAll(filepath.Join(dir, "gendb"), 0o755)
				for n, b := range files {
					os.WriteFile(filepath.Join(dir, "gendb", n), b, 0o644)
				}
				os.WriteFile(filepath.Join(dir, "main.go"), []byte(c20Main), 0o644)
				os.WriteFile(filepath.Join(dir, "go.mod"), []byte("module gen\n\ngo 1.21\n\nrequire github.com/ovn-org/libovsdb v0.0.0\n\nreplace github.com/ovn-org/libovsdb => /repo\n"), 0o644)
				sum, _ := os.ReadFile("/repo/go.sum")
				os.WriteFile(filepath.Join(dir, "go.sum"), sum, 0o644)
				build := exec.Command("go", "build", "-o", "prog", ".")
				build.Dir = dir
				build.Env = goEnv()
				if out, err := build.CombinedOutput(); err != nil {
					r.Violation("c20.does-not-compile."+feature, fmt.Sprintf("[%s] generated code does not compile:\n%s", cfg, tailStr(string(out), 2500)), map[string]interface{}{"schema": text})
					continue
				}
				run := exec.Command(filepath.Join(dir, "prog"), fmt.Sprint(extended))
				run.Dir = dir
				out, err := run.CombinedOutput()
				lines := strings.Split(string(out), "\n")
				done := false
				for _, l := range lines {
					if strings.HasPrefix(l, "DONE") {
						done = true
						var f, c, t int
						fmt.Sscanf(l, "DONE failures=%d cases=%d tables=%d", &f, &c, &t)
						r.Add("law_cases", int64(c))
						for i := 0; i < t; i++ {
							r.Distinct("nontrivial", fmt.Sprintf("%s/%d", cfg, i))
						}
					}
					if strings.HasPrefix(l, "FAIL ") {
						kind := "law"
						switch {
						case strings.Contains(l, "NewDatabaseModel") || strings.Contains(l, "has type") || strings.Contains(l, "has no field"):
							kind = "model-does-not-validate"
						case strings.Contains(l, "DeepCopy") || strings.Contains(l, "Clone"):
							kind = "copy"
						case strings.Contains(l, "Equal"):
							kind = "equality"
						}
						r.Violation("c20."+kind+"."+feature, fmt.Sprintf("[%s] %s", cfg, l), map[string]interface{}{"config": cfg, "line": l})
					}
				}
				if err != nil || !done {
					r.Violation("c20.program-crashed."+feature, fmt.Sprintf("[%s] the program using the generated model failed: %v\n%s", cfg, err, tailStr(string(out), 2000)), nil)
				}
				if extended && enums {
					r.Sample(map[string]interface{}{"config": cfg, "files": len(files), "output_tail": tailStr(string(out), 200)})
				}
			}
		}
	}
	// the generator writing over its own earlier output: one directory, the four configurations of one schema generated into
	// it one after the other (longest first, then in the opposite order); after each generation every file on disk must be
	// what a generation into an empty directory gives
	for _, variant := range variants {
		text := c20Schema(variant, true)
		var schema ovsdb.DatabaseSchema
		if err := json.Unmarshal([]byte(text), &schema); err != nil {
			panic(err)
		}
		type cfgT struct{ extended, enums bool }
		order := []cfgT{{true, true}, {true, false}, {false, true}, {false, false}, {false, true}, {true, false}, {true, true}}
		dir := filepath.Join(scratch, fmt.Sprintf("regen%d", variant))
		os.MkdirAll(dir, 0o755)
		gen, err := modelgen.NewGenerator()
		if err != nil {
			panic(err)
		}
		for step, cf := range order {
			r.Add("evaluations", 1)
			r.Add("regenerations", 1)
			want, err := c20Generate(schema, "gendb", cf.extended, cf.enums)
			if err != nil {
				continue // reported above
			}
			for name, table := range schema.Tables {
				table := table
				args := modelgen.GetTableTemplateData("gendb", name, &table)
				args.WithExtendedGen(cf.extended)
				args.WithEnumTypes(cf.enums)
				if err := gen.Generate(filepath.Join(dir, modelgen.FileName(name)), modelgen.NewTableTemplate(), args); err != nil {
					r.Violation("c20.regenerate-error", fmt.Sprintf("[schema%d step %d extended=%v enums=%v] Generate(%s): %v", variant, step, cf.extended, cf.enums, name, err), nil)
				}
			}
			if err := gen.Generate(filepath.Join(dir, "model.go"), modelgen.NewDBTemplate(), modelgen.GetDBTemplateData("gendb", schema)); err != nil {
				r.Violation("c20.regenerate-error", fmt.Sprintf("[schema%d step %d] Generate(model.go): %v", variant, step, err), nil)
			}
			for n, b := range want {
				got, err := os.ReadFile(filepath.Join(dir, n))
				if err != nil || !bytes.Equal(got, b) {
					r.Violation("c20.regenerated-file-differs", fmt.Sprintf("[schema%d] step %d (extended=%v enums=%v) written over the previous generation: %s on disk (%d bytes, err=%v) differs from a fresh generation (%d bytes)", variant, step, cf.extended, cf.enums, n, len(got), err, len(b)), map[string]interface{}{"file": n, "step": step})
					break
				}
			}
		}
	}
	// known problematic shapes, each in its own tiny schema so that they are signed separately
	for name, col := range map[string]string{
		"integer-enum": `{"type":{"key":{"type":"integer","enum":["set",[1,2,3]]}}}`,
		"real-enum":    `{"type":{"key":{"type":"real","enum":["set",[1.5,2.5]]}}}`,
		"boolean-enum": `{"type":{"key":{"type":"boolean","enum":true}}}`,
	} {
		r.Add("evaluations", 1)
		text := fmt.Sprintf(`{"name":"E","version":"1.0.0","tables":{"T":{"columns":{"e":%s}}}}`, col)
		var schema ovsdb.DatabaseSchema
		if err := json.Unmarshal([]byte(text), &schema); err != nil {
			panic(err)
		}
		func() {
			defer func() {
				if p := recover(); p != nil {
					r.Violation("c20.generate-panic."+name, fmt.Sprintf("generation for a %s column panics: %v", name, p), map[string]interface{}{"schema": text})
				}
			}()
			files, err := c20Generate(schema, "gendb", true, true)
			if err != nil {
				r.Violation("c20.generate-error."+name, fmt.Sprintf("generation for a %s column fails: %v", name, err), map[string]interface{}{"schema": text})
				return
			}
			dir := filepath.Join(scratch, name)
			os.MkdirAll(filepath.Join(dir, "gendb"), 0o755)
			for n, b := range files {
				os.WriteFile(filepath.Join(dir, "gendb", n), b, 0o644)
			}
			os.WriteFile(filepath.Join(dir, "go.mod"), []byte("module gen\n\ngo 1.21\n\nrequire github.com/ovn-org/libovsdb v0.0.0\n\nreplace github.com/ovn-org/libovsdb => /repo\n"), 0o644)
			sum, _ := os.ReadFile("/repo/go.sum")
			os.WriteFile(filepath.Join(dir, "go.sum"), sum, 0o644)
			build := exec.Command("go", "build", "./gendb")
			build.Dir = dir
			build.Env = goEnv()
			if out, err := build.CombinedOutput(); err != nil {
				r.Violation("c20.does-not-compile."+name, fmt.Sprintf("generated code for a %s column does not compile:\n%s", name, tailStr(string(out), 1500)), map[string]interface{}{"schema": text})
			}
		}()
	}
	r.Set("distinct_nontrivial", r.DistinctCount("nontrivial"))
}
