//go:build vsched

package checks

// C17 — concurrent transactions are serialisable and observed in one order.
//
// The real OvsdbServer (handlers called directly, no network) runs under the
// vsync scheduler: every blocking sync operation in server, database/inmemory
// and cache is a scheduling point; all interleavings up to a preemption bound
// are enumerated and each execution is compared with the set of sequential
// executions of the same transactions on the same engine.

import (
	"encoding/json"
	"fmt"
	"os"
	"sort"
	"strings"
	gosync "sync"
	"time"

	"github.com/cenkalti/rpc2"
	"github.com/ovn-org/libovsdb/ovsdb"
	"github.com/ovn-org/libovsdb/verifshim/vsync"

	"verif/mc/ev"
	rm "verif/mc/refmodel"
	"verif/mc/schemas"
	"verif/mc/sys"
	"verif/mc/workers"
)

func init() { register("C17", "model_checking", runC17) }

const c17Schema = `{"name":"CON","version":"1.0.0","tables":{
 "C":{"columns":{"cnt":{"type":"integer"},"tag":{"type":"string"}},"isRoot":true},
 "K":{"columns":{"k":{"type":"string"},"v":{"type":"integer"}},"indexes":[["k"]],"isRoot":true},
 "P":{"columns":{"qs":{"type":{"key":{"type":"uuid","refTable":"Q","refType":"strong"},"min":0,"max":"unlimited"}}},"isRoot":true},
 "W":{"columns":{"w":{"type":{"key":{"type":"uuid","refTable":"Q","refType":"weak"},"min":1,"max":"unlimited"}}},"isRoot":true},
 "Q":{"columns":{"name":{"type":"string"}}}}}`

var (
	c17C = uu("1", 1)
	c17K = []string{uu("2", 1), uu("2", 2), uu("2", 3)}
	c17P = []string{uu("3", 1), uu("3", 2)}
	c17Q = uu("4", 1)
	c17W = uu("5", 1)
)

type c17Scenario struct {
	name     string
	threads  [][][]rm.Op // thread -> list of transactions -> ops; a transaction consisting of the single op "MONITOR" registers a monitor
	monitors int         // monitors attached before the threads start
}

func c17Scenarios(level int) []c17Scenario {
	one := func(i int64) rm.Value { return rm.SetOf(rm.I(i)) }
	str := func(s string) rm.Value { return rm.SetOf(rm.S(s)) }
	inc := func(tag string) []rm.Op {
		return []rm.Op{opMutate("C", c17C, "cnt", "+=", one(1)), {Op: "select", Table: "C", Columns: []string{"cnt"}}, opUpdate("C", c17C, rm.Row{"tag": str(tag)})}
	}
	cas := func(v int64) []rm.Op {
		return []rm.Op{{Op: "wait", Table: "C", Where: whereUUID(c17C), Until: "==", Columns: []string{"cnt"}, Rows: []rm.Row{{"cnt": one(0)}}}, opUpdate("C", c17C, rm.Row{"cnt": one(v)})}
	}
	insK := func(i int) []rm.Op { return []rm.Op{opInsert("K", c17K[i], rm.Row{"k": str("x"), "v": one(int64(i))})} }
	monitor := []rm.Op{{Op: "MONITOR"}}
	s := []c17Scenario{
		{"counter: 2 x (cnt+=1)", [][][]rm.Op{{inc("a")}, {inc("b")}}, 2},
		{"compare-and-set: 2 x (wait cnt==0; cnt:=v)", [][][]rm.Op{{cas(1)}, {cas(2)}}, 1},
		{"insert-if-absent on a unique index", [][][]rm.Op{{insK(0)}, {insK(1)}}, 2},
		{"move a reference vs drop it", [][][]rm.Op{{{opUpdate("P", c17P[1], rm.Row{"qs": uset(c17Q)})}}, {{opUpdate("P", c17P[0], rm.Row{"qs": uset()})}}}, 2},
		{"delete the referrer vs add a weak reference", [][][]rm.Op{{{opDelete("P", c17P[0])}}, {{opInsert("W", c17W, rm.Row{"w": uset(c17Q)})}}}, 1},
		{"monitor registration vs transaction", [][][]rm.Op{{inc("a")}, {monitor}}, 0},
		{"monitor registration vs two transactions", [][][]rm.Op{{inc("a"), inc("b")}, {monitor}}, 1},
		{"two transactions per client", [][][]rm.Op{{inc("a"), inc("b")}, {{opMutate("C", c17C, "cnt", "*=", one(2))}}}, 1},
		// transactions of one kind of operation only (a server may be tempted to treat some kinds as read-only)
		{"counter: 2 x (mutate cnt+=1; select)", [][][]rm.Op{{{opMutate("C", c17C, "cnt", "+=", one(1)), {Op: "select", Table: "C", Columns: []string{"cnt"}}}}, {{opMutate("C", c17C, "cnt", "+=", one(1)), {Op: "select", Table: "C", Columns: []string{"cnt"}}}}}, 1},
		{"mutate-only: cnt+=1 vs cnt*=2 vs select", [][][]rm.Op{{{opMutate("C", c17C, "cnt", "+=", one(1))}}, {{opMutate("C", c17C, "cnt", "*=", one(2))}}, {{{Op: "select", Table: "C", Columns: []string{"cnt"}}}}}, 0},
		{"reference moved by mutations only", [][][]rm.Op{{{opMutate("P", c17P[1], "qs", "insert", uset(c17Q))}}, {{opMutate("P", c17P[0], "qs", "delete", uset(c17Q))}}}, 1},
	}
	if level > 0 {
		s = append(s,
			c17Scenario{"counter: 3 clients", [][][]rm.Op{{inc("a")}, {inc("b")}, {inc("c")}}, 2},
			c17Scenario{"insert-if-absent: 3 clients", [][][]rm.Op{{insK(0)}, {insK(1)}, {insK(2)}}, 1},
			c17Scenario{"counter vs insert vs monitor", [][][]rm.Op{{inc("a")}, {insK(0)}, {monitor}}, 1},
			c17Scenario{"move reference, drop it, weak reference", [][][]rm.Op{{{opUpdate("P", c17P[1], rm.Row{"qs": uset(c17Q)})}}, {{opUpdate("P", c17P[0], rm.Row{"qs": uset()})}}, {{opInsert("W", c17W, rm.Row{"w": uset(c17Q)})}}}, 1},
		)
	}
	return s
}

func c17Setup(s *sys.Sys) {
	one := func(i int64) rm.Value { return rm.SetOf(rm.I(i)) }
	setup := []rm.Op{
		opInsert("C", c17C, rm.Row{"cnt": one(0)}),
		opInsert("Q", c17Q, rm.Row{"name": rm.SetOf(rm.S("q1"))}),
		opInsert("P", c17P[0], rm.Row{"qs": uset(c17Q)}),
		opInsert("P", c17P[1], rm.Row{}),
	}
	if res, err := s.TransactRef(setup); err != nil || len(res) != len(setup) {
		panic(fmt.Sprint("setup failed ", res, err))
	}
}

type c17Obs struct {
	results map[string]string // "thread/txn" -> canonical results
	dump    string
	notes   []string // per monitor: canonical notification sequence (setup monitors first, then monitors registered by threads)
	initial []string // per thread-registered monitor: view after applying its initial reply + notifications
}

func (o c17Obs) sig() string {
	var k []string
	for n, r := range o.results {
		k = append(k, n+"="+r)
	}
	sort.Strings(k)
	return strings.Join(k, " ; ") + " || " + o.dump + " || " + strings.Join(o.notes, " ## ")
}

type c17Run struct {
	sys     *sys.Sys
	recs    []*sys.Recorder
	recIDs  []string // the monitor id (JSON) each entry of recs stands for
	all     map[string]*ovsdb.MonitorRequest
	obs     c17Obs
	regInit []json.RawMessage
	regRecs []*sys.Recorder
	clMu    gosync.Mutex
	clients map[int]*rpc2.Client
}

func newC17Run(dbs *schemas.DB, sc c17Scenario) *c17Run {
	r := &c17Run{sys: sys.New(dbs), obs: c17Obs{results: map[string]string{}}}
	c17Setup(r.sys)
	r.all = map[string]*ovsdb.MonitorRequest{}
	for _, t := range dbs.Tables() {
		r.all[t] = &ovsdb.MonitorRequest{Columns: dbs.Columns(t), Select: ovsdb.NewDefaultMonitorSelect()}
	}
	// the monitors attached beforehand share one connection (a server keeps its monitors per connection)
	var rec0 *sys.Recorder
	var cl0 *rpc2.Client
	for i := 0; i < sc.monitors; i++ {
		id := fmt.Sprintf(`"pre%d"`, i)
		var err error
		if i == 0 {
			rec0, cl0, _, err = r.sys.AddMonitor("monitor_cond", id, r.all)
		} else {
			_, _, _, err = r.sys.AddMonitorOn(rec0, cl0, "monitor_cond", id, r.all)
		}
		if err != nil {
			panic(err)
		}
		r.recs = append(r.recs, rec0)
		r.recIDs = append(r.recIDs, id)
	}
	return r
}

// txn executes one transaction (or monitor registration) of a thread.
func (r *c17Run) txn(name string, ops []rm.Op) {
	if len(ops) == 1 && ops[0].Op == "MONITOR" {
		rec, _, init, err := r.sys.AddMonitor("monitor_cond", `"`+strings.ReplaceAll(name, "/", "_")+`"`, r.all)
		if err != nil {
			r.obs.results[name] = "monitor error: " + err.Error()
			return
		}
		r.regInit = append(r.regInit, init)
		r.regRecs = append(r.regRecs, rec)
		r.obs.results[name] = "monitor registered"
		return
	}
	// every client thread is a connection of its own
	var ti int
	fmt.Sscanf(name, "T%d/", &ti)
	r.clMu.Lock()
	if r.clients == nil {
		r.clients = map[int]*rpc2.Client{}
	}
	cl := r.clients[ti]
	if cl == nil {
		_, cl = sys.NewRecorder()
		r.clients[ti] = cl
	}
	r.clMu.Unlock()
	res, err := r.sys.As(cl).TransactRef(ops)
	if err != nil {
		r.obs.results[name] = "rpc error: " + err.Error()
		return
	}
	r.obs.results[name] = r.sys.CanonResults(sys.OpTables(ops), res)
}

func canonNote(n sys.Note) string {
	c, err := canonJSON(n.Params)
	if err != nil {
		return string(n.Params)
	}
	return n.Method + ":" + c
}

func (r *c17Run) finish(ref *rm.Schema) {
	st := r.sys.State()
	r.obs.dump = st.Dump()
	taken := map[*sys.Recorder][]sys.Note{}
	for i, rec := range r.recs {
		if _, ok := taken[rec]; !ok {
			taken[rec] = rec.Take()
		}
		var seq []string
		for _, n := range taken[rec] {
			// a connection's recorder sees the notifications of all its monitors: keep this monitor's
			var params []json.RawMessage
			if err := json.Unmarshal(n.Params, &params); err == nil && len(params) > 0 && string(params[0]) != r.recIDs[i] {
				continue
			}
			seq = append(seq, canonNote(n))
		}
		r.obs.notes = append(r.obs.notes, strings.Join(seq, " -> "))
	}
	// monitors registered by a thread: initial contents + notifications must add up to the final state
	for i, init := range r.regInit {
		v := view{}
		for t := range r.all {
			v[t] = map[string]rm.Row{}
		}
		var tu ovsdb.TableUpdates2
		msg := ""
		if err := json.Unmarshal(init, &tu); err != nil {
			msg = "undecodable initial reply"
		} else if m, _ := applyV2(ref, v, r.all, tu); m != "" {
			msg = "initial: " + m
		}
		for _, n := range r.regRecs[i].Take() {
			var params []json.RawMessage
			if err := json.Unmarshal(n.Params, &params); err != nil || len(params) != 2 {
				msg = "bad params"
				continue
			}
			var tu ovsdb.TableUpdates2
			if err := json.Unmarshal(params[1], &tu); err != nil {
				msg = "undecodable notification"
				continue
			}
			if m, _ := applyV2(ref, v, r.all, tu); m != "" && msg == "" {
				msg = "notification: " + m
			}
		}
		final := mkView(st, r.all)
		if msg == "" && v.String() != final.String() {
			msg = fmt.Sprintf("initial contents plus notifications give\n%s\nbut the database holds\n%s", v, final)
		}
		r.obs.initial = append(r.obs.initial, msg)
	}
}

// interleavings of per-thread transaction lists preserving each thread's order
func c17Orders(counts []int) [][]int {
	var out [][]int
	var rec func(cur []int, left []int)
	rec = func(cur []int, left []int) {
		done := true
		for t, n := range left {
			if n > 0 {
				done = false
				l2 := append([]int{}, left...)
				l2[t]--
				rec(append(append([]int{}, cur...), t), l2)
			}
		}
		if done {
			out = append(out, cur)
		}
	}
	rec(nil, counts)
	return out
}

type c17Case struct {
	Scenario string   `json:"scenario"`
	Choices  []int    `json:"choices"`
	Trace    []string `json:"trace"`
	Observed string   `json:"observed"`
	Serial   []string `json:"serial_outcomes"`
	Msg      string   `json:"msg"`
}

func c17Explore(r *ev.Run, dbs *schemas.DB, sc c17Scenario, bound int) {
	ref := rm.FromOvsdb(dbs.Schema)
	// sequential reference outcomes on the same engine (no scheduler active)
	counts := make([]int, len(sc.threads))
	for i, t := range sc.threads {
		counts[i] = len(t)
	}
	serial := map[string]bool{}
	var serialList []string
	for _, order := range c17Orders(counts) {
		run := newC17Run(dbs, sc)
		idx := make([]int, len(sc.threads))
		// the sequential runs are the yardstick for the concurrent ones, so they are themselves compared with the reference
		// model: same transactions, same order, final contents must agree
		model := run.sys.State()
		modelOK := true
		for _, t := range order {
			ops := sc.threads[t][idx[t]]
			run.txn(fmt.Sprintf("T%d/%d", t, idx[t]), ops)
			if len(ops) == 1 && ops[0].Op == "MONITOR" {
				idx[t]++
				continue
			}
			if out := model.Transact(ops); out.Accepted() {
				model = out.New
			} else if out.New == nil && out.FailedOp < 0 && out.CommitErr == "" {
				modelOK = false
			}
			idx[t]++
		}
		if got, want := run.sys.State().Dump(), model.Dump(); modelOK && got != want {
			r.Violation("c17.sequential-differs-from-reference."+templ(sc.name), fmt.Sprintf("[%s] executed one after the other in the order %v, each client on its own connection, the database ends as\n%s\nthe reference model gives\n%s", sc.name, order, got, want), map[string]interface{}{"scenario": sc.name, "order": order})
		}
		run.finish(ref)
		for _, m := range run.obs.initial {
			if m != "" {
				r.Violation("c17.sequential-monitor."+templ(sc.name), fmt.Sprintf("[%s] even sequentially: %s", sc.name, m), nil)
			}
		}
		if !serial[run.obs.sig()] {
			serial[run.obs.sig()] = true
			serialList = append(serialList, run.obs.sig())
		}
	}
	execs := 0
	retry := 0
	var explore func(prefix []int)
	explore = func(prefix []int) {
		if r.Expired() {
			return
		}
		run := newC17Run(dbs, sc)
		var fns []func()
		for ti, txns := range sc.threads {
			ti, txns := ti, txns
			fns = append(fns, func() {
				for k, ops := range txns {
					run.txn(fmt.Sprintf("T%d/%d", ti, k), ops)
				}
			})
		}
		res := vsync.Explore(fns, prefix, 4000, 10*time.Second)
		if res.Diverged != "" && retry < 6 {
			retry++
			explore(prefix)
			return
		}
		retry = 0
		execs++
		r.Add("transitions", int64(len(res.Points)))
		r.Add("executions", 1)
		workers.Heartbeat()
		var trace []string
		for _, p := range res.Points {
			trace = append(trace, p.Op)
		}
		cse := func(msg, observed string) c17Case {
			return c17Case{sc.name, res.Choices, trace, observed, serialList, msg}
		}
		switch {
		case res.Diverged != "":
			// the code under test made a different number of scheduling points than on the run this prefix came
			// from (Go map iteration order inside the engine): the schedule cannot be replayed; counted, and the
			// run is not called exhaustive
			r.Add("diverged_replays", 1)
			r.Exhaustive = false
			return
		case res.Deadlock:
			r.Violation("c17.deadlock."+templ(sc.name), fmt.Sprintf("[%s] schedule %v: deadlock, blocked: %v", sc.name, res.Choices, res.Blocked), cse("deadlock "+strings.Join(res.Blocked, "; "), ""))
			return
		case res.Hang:
			r.Violation("c17.hang."+templ(sc.name), fmt.Sprintf("[%s] schedule %v: a thread did not come back to the scheduler: %v", sc.name, res.Choices, res.Blocked), cse("hang", ""))
			return
		case len(res.ThreadErr) > 0:
			r.Violation("c17.panic."+templ(sc.name), fmt.Sprintf("[%s] schedule %v: %v", sc.name, res.Choices, res.ThreadErr), cse(strings.Join(res.ThreadErr, "; "), ""))
			return
		}
		run.finish(ref)
		sig := run.obs.sig()
		preempt := 0
		for _, p := range res.Points {
			if p.PrevStill && p.Chosen != p.Prev {
				preempt++
			}
		}
		r.Distinct("schedules", sc.name+fmt.Sprint(res.Choices))
		r.Distinct("outcomes", sc.name+"|"+sig)
		if preempt > 0 {
			r.Distinct("nontrivial", sc.name+fmt.Sprint(res.Choices))
		}
		if !serial[sig] {
			r.Violation("c17.not-serialisable."+templ(sc.name), fmt.Sprintf("[%s] schedule %v (%d preemptions): results, final contents and notification order match no sequential order of the transactions\nobserved: %s", sc.name, res.Choices, preempt, sig), cse("not serialisable", sig))
		}
		for _, m := range run.obs.initial {
			if m != "" {
				r.Violation("c17.monitor-registration."+templ(sc.name), fmt.Sprintf("[%s] schedule %v: a monitor registered concurrently with a transaction: %s", sc.name, res.Choices, m), cse(m, sig))
			}
		}
		if m := run.sys.State().Invariants(); m != "" {
			r.Violation("c17.invariant."+templ(sc.name), fmt.Sprintf("[%s] schedule %v: %s", sc.name, res.Choices, m), cse(m, sig))
		}
		if execs == 2 {
			r.Sample(map[string]interface{}{"scenario": sc.name, "schedule": res.Choices, "trace_head": trace[:min(len(trace), 12)], "preemptions": preempt, "outcome": sig})
		}
		// children: alternatives at every later point within the preemption bound
		cost := 0
		for i, p := range res.Points {
			if i >= len(prefix) {
				for alt := 1; alt < len(p.Enabled); alt++ {
					c := cost
					if p.PrevStill {
						c++
					}
					if c > bound {
						continue
					}
					explore(append(append([]int{}, res.Choices[:i]...), alt))
				}
			}
			if p.PrevStill && res.Choices[i] != 0 {
				cost++
			}
		}
	}
	explore(nil)
	r.Add("scenarios", 1)
}

func runC17(r *ev.Run) {
	level, bound := 0, 2
	if r.Tier == "thorough" {
		level, bound = 1, 3
		r.SetDeadline(40 * 60 * 1e9)
	} else {
		r.SetDeadline(240 * 1e9)
	}
	r.Set("rule", "state = scheduler point of an execution of 2-3 client threads (1-2 transactions or a monitor registration each) against the real OvsdbServer with the sync operations of server, database/inmemory and cache under a controlled scheduler; every schedule up to the preemption bound is executed (iterative context bounding, depth-first); each execution's results, final contents and per-monitor notification order must equal those of some sequential order executed on the same engine; non-trivial = schedule with at least one preemption")
	r.Assume("scheduling points are the blocking sync operations (Lock, RLock, WaitGroup.Wait, Once) - unsynchronised accesses are invisible to this exploration (the race detector pass of C18 looks for those)")
	dbs := schemas.MustBuild(c17Schema, nil)
	scs := c17Scenarios(level)
	sys.Inline = true
	if workers.IsWorker() {
		workers.Child(r, func(i int) { c17Explore(r, dbs, scs[i], bound) })
	}
	workers.Parent(r, len(scs), 1, "", 300*time.Second, func(c workers.Crash) {
		msg, site := workers.PanicInfo(c.Stderr)
		kind := "crash"
		if c.Timeout {
			kind, msg, site = "hang", "no progress for 300s", "timeout"
		}
		r.Violation("c17."+kind+"."+site, fmt.Sprintf("[%s] the exploring process died: %s (at %s)", scs[c.Session].name, msg, site), map[string]interface{}{"stderr_tail": tailStr(c.Stderr, 3000)})
	})
	r.Set("states", r.Get("transitions"))
	r.Set("traces_validated_against_impl", r.Get("executions"))
	r.Set("evaluations", r.Get("executions"))
	r.Set("distinct_nontrivial", r.DistinctCount("nontrivial"))
	r.Set("preemption_bound", bound)
	r.Set("bound", fmt.Sprintf("%d scenarios, preemption bound %d, every schedule within the bound", len(scs), bound))
	_ = os.Getenv
}
