package checks

// C03 — operation results and effects follow RFC 7047 §5.1-5.2.

import (
	"fmt"
	"regexp"
	"sort"
	"strings"

	"github.com/ovn-org/libovsdb/ovsdb"

	"verif/mc/dbx"
	"verif/mc/ev"
	rm "verif/mc/refmodel"
	"verif/mc/schemas"
	"verif/mc/sys"
)

var addrRe = regexp.MustCompile(`0x[0-9a-f]+|\[[^\]]*\]`)
var uuidRe = regexp.MustCompile(`[0-9a-f]{8}-[0-9a-f]{4}-[0-9a-f]{4}-[0-9a-f]{4}-[0-9a-f]{12}`)

func init() { register("C03", "model_checking", runC03) }

const c03Schema = `{"name":"TYP","version":"1.0.0","tables":{"T":{"columns":{
 "i":{"type":"integer"},
 "r":{"type":"real"},
 "b":{"type":"boolean"},
 "s":{"type":"string"},
 "u":{"type":"uuid"},
 "e":{"type":{"key":{"type":"string","enum":["set",["a","b","c"]]}}},
 "oi":{"type":{"key":{"type":"integer"},"min":0,"max":1}},
 "os":{"type":{"key":{"type":"string"},"min":0,"max":1}},
 "ou":{"type":{"key":{"type":"uuid"},"min":0,"max":1}},
 "ob":{"type":{"key":{"type":"boolean"},"min":0,"max":1}},
 "orr":{"type":{"key":{"type":"real"},"min":0,"max":1}},
 "si":{"type":{"key":{"type":"integer"},"min":0,"max":"unlimited"}},
 "ss":{"type":{"key":{"type":"string"},"min":0,"max":"unlimited"}},
 "su":{"type":{"key":{"type":"uuid"},"min":0,"max":"unlimited"}},
 "sr":{"type":{"key":{"type":"real"},"min":0,"max":"unlimited"}},
 "sb":{"type":{"key":{"type":"integer"},"min":0,"max":3}},
 "sbs":{"type":{"key":{"type":"string"},"min":0,"max":4}},
 "mss":{"type":{"key":{"type":"string"},"value":{"type":"string"},"min":0,"max":"unlimited"}},
 "msi":{"type":{"key":{"type":"string"},"value":{"type":"integer"},"min":0,"max":"unlimited"}},
 "mis":{"type":{"key":{"type":"integer"},"value":{"type":"string"},"min":0,"max":"unlimited"}},
 "mus":{"type":{"key":{"type":"uuid"},"value":{"type":"string"},"min":0,"max":"unlimited"}},
 "msu":{"type":{"key":{"type":"string"},"value":{"type":"uuid"},"min":0,"max":"unlimited"}},
 "ei":{"type":{"key":{"type":"integer","enum":["set",[1,2,3]]}}},
 "er":{"type":{"key":{"type":"real","enum":["set",[0.5,1.5]]}}},
 "se":{"type":{"key":{"type":"string","enum":["set",["a","b","c"]]},"min":0,"max":"unlimited"}},
 "imm":{"type":"string","mutable":false}
},"indexes":[["i"]]}}}`

var (
	x1 = uu("9", 1)
	x2 = uu("9", 2)
	x3 = uu("9", 3)
	tU = []string{uu("7", 1), uu("7", 2), uu("7", 3)}
)

// universe of values per column (first = default)
func c03Universe(c *rm.Col, level int) []rm.Value {
	atoms := func(t string) []rm.Atom {
		if len(c.Enum) > 0 && t == c.KeyT && !c.IsMap {
			return c.Enum // only members: libovsdb does not check membership, which is not the subject here
		}
		switch t {
		case "integer":
			return []rm.Atom{rm.I(0), rm.I(1), rm.I(2), rm.I(-3)}
		case "real":
			return []rm.Atom{rm.R(0), rm.R(1.5), rm.R(-2)}
		case "boolean":
			return []rm.Atom{rm.B(false), rm.B(true)}
		case "uuid":
			return []rm.Atom{rm.U(""), rm.U(x1), rm.U(x2)}
		}
		if len(c.Enum) > 0 {
			return c.Enum
		}
		return []rm.Atom{rm.S(""), rm.S("a"), rm.S("b")}
	}
	k := atoms(c.KeyT)
	switch {
	case c.IsMap:
		v := atoms(c.ValT)
		nz := func(a []rm.Atom) []rm.Atom { return a[1:] }
		kk, vv := nz(k), nz(v)
		if c.KeyT == "string" {
			kk = []rm.Atom{rm.S("k1"), rm.S("k2")}
		}
		out := []rm.Value{rm.MapOf(), rm.MapOf(kk[0], vv[0]), rm.MapOf(kk[0], vv[1%len(vv)]), rm.MapOf(kk[0], vv[0], kk[1], vv[1%len(vv)])}
		if level > 0 {
			out = append(out, rm.MapOf(kk[1], vv[0]), rm.MapOf(kk[0], v[0]))
		}
		return out
	case c.Scalar():
		var out []rm.Value
		for _, a := range k {
			out = append(out, rm.SetOf(a))
		}
		return out
	case c.Max == 1:
		return []rm.Value{rm.SetOf(), rm.SetOf(k[1]), rm.SetOf(k[2%len(k)]), rm.SetOf(k[0])}
	}
	out := []rm.Value{rm.SetOf(), rm.SetOf(k[1]), rm.SetOf(k[2%len(k)]), rm.SetOf(k[1], k[2%len(k)]), rm.SetOf(k[0], k[1], k[2%len(k)])}
	return out
}

func c03Cols(ref *rm.Schema) []string { return ref.Tables["T"].ColNames() }

// rows used to build states
func c03StateRows(ref *rm.Schema) []rm.Row {
	t := ref.Tables["T"]
	pick := func(i int) rm.Row {
		r := rm.Row{}
		for cn, c := range t.Cols {
			u := c03Universe(c, 0)
			r[cn] = u[i%len(u)].Clone()
		}
		return r
	}
	return []rm.Row{pick(1), pick(2), pick(3), pick(0)}
}

func c03Builders(ref *rm.Schema) []dbx.Txn {
	rows := c03StateRows(ref)
	var a []dbx.Txn
	for i, u := range tU {
		for j, r := range rows {
			if (i+j)%2 == 0 || j == i {
				a = append(a, txn(fmt.Sprintf("ins T t%d row%d", i+1, j), opInsert("T", u, r)))
			}
		}
	}
	return a
}

var condFns = []string{"==", "!=", "<", "<=", ">", ">=", "includes", "excludes"}
var mutators = []string{"+=", "-=", "*=", "/=", "%=", "insert", "delete"}

func shapeClass(c *rm.Col) string {
	switch {
	case c.IsMap:
		return "map"
	case c.Scalar():
		if c.KeyT == "integer" || c.KeyT == "real" {
			return "num"
		}
		return "atom"
	case c.Max == 1:
		return "opt"
	}
	return "set"
}

func colShape(c *rm.Col) string {
	switch {
	case c.IsMap:
		return "map-" + c.KeyT + "-" + c.ValT
	case c.Scalar():
		if len(c.Enum) > 0 {
			return "enum"
		}
		return c.KeyT
	case c.Max == 1:
		return "opt-" + c.KeyT
	}
	return "set-" + c.KeyT
}

func c03Probes(ref *rm.Schema, level int) []dbx.Txn {
	t := ref.Tables["T"]
	var p []dbx.Txn
	add := func(class, name string, ops ...rm.Op) { p = append(p, dbx.Txn{Name: name, Class: class, Ops: ops}) }
	for _, cn := range t.ColNames() {
		c := t.Cols[cn]
		uni := c03Universe(c, level)
		shape := colShape(c)
		// conditions
		for _, fn := range condFns {
			args := append([]rm.Value{}, uni...)
			if c.IsMap && (fn == "includes" || fn == "excludes") {
				// a pair that matches on the key only
				ks := uni[1].Keys()
				args = append(args, rm.MapOf(ks[0], uni[3].Map[uni[3].Keys()[1]]))
			}
			if c.Scalar() && c.KeyT == "real" && len(c.Enum) == 0 {
				// arguments close to the stored values (less than 1 apart), and so far away that a difference overflows an int64
				for _, f := range []float64{1.25, 1.75, -1.5, 0.5, -0.25, 1e19, -1e19} {
					args = append(args, rm.SetOf(rm.R(f)))
				}
			}
			for ai, arg := range args {
				where := []rm.Cond{{Col: cn, Fn: fn, Val: arg}}
				cl := fmt.Sprintf("cond.%s.%s.arg%d", fn, shapeClass(c), ai)
				add(cl+".select", fmt.Sprintf("select where %s %s #%d", cn, fn, ai), rm.Op{Op: "select", Table: "T", Where: where})
				if fn == "==" || fn == "includes" || fn == "excludes" || level > 0 {
					add(cl+".delete", fmt.Sprintf("delete where %s %s #%d", cn, fn, ai), rm.Op{Op: "delete", Table: "T", Where: where}, rm.Op{Op: "select", Table: "T"})
				}
			}
		}
		// update to each value, for all rows and for one row
		for ai, v := range uni {
			add("update."+shape, fmt.Sprintf("update all %s := #%d", cn, ai), rm.Op{Op: "update", Table: "T", Row: rm.Row{cn: v}})
			add("update."+shape, fmt.Sprintf("update t1 %s := #%d", cn, ai), opUpdate("T", tU[0], rm.Row{cn: v}), rm.Op{Op: "select", Table: "T", Where: whereUUID(tU[0])})
			add("insert."+shape, fmt.Sprintf("insert t3 {%s: #%d}", cn, ai), opInsert("T", tU[2], rm.Row{cn: v}), rm.Op{Op: "select", Table: "T", Where: whereUUID(tU[2])})
		}
		// mutations
		for _, mu := range mutators {
			var args []rm.Value
			switch mu {
			case "insert", "delete":
				args = append(args, uni...)
				if c.IsMap && mu == "delete" {
					// delete by key set
					for _, v := range uni[1:] {
						args = append(args, rm.SetOf(v.Keys()...))
					}
				}
				if !c.IsMap && !c.Scalar() && c.Max != 1 {
					// a single element written as an atom
				}
			default:
				switch c.KeyT {
				case "integer":
					args = []rm.Value{rm.SetOf(rm.I(1)), rm.SetOf(rm.I(2)), rm.SetOf(rm.I(-3))}
				case "real":
					args = []rm.Value{rm.SetOf(rm.R(1.5)), rm.SetOf(rm.R(-2))}
				default:
					args = []rm.Value{rm.SetOf(rm.I(1))}
				}
			}
			for ai, arg := range args {
				add(fmt.Sprintf("mutate.%s.%s.arg%d", mu, shapeClass(c), ai), fmt.Sprintf("mutate all %s %s #%d", cn, mu, ai),
					rm.Op{Op: "mutate", Table: "T", Muts: []rm.Mut{{Col: cn, Mutator: mu, Val: arg}}}, rm.Op{Op: "select", Table: "T"})
			}
		}
	}
	// two conditions, two mutations, chains on one row (later operations see earlier ones)
	one := func(v int64) rm.Value { return rm.SetOf(rm.I(v)) }
	str := func(s string) rm.Value { return rm.SetOf(rm.S(s)) }
	add("conj", "select i>=1 and b==true", rm.Op{Op: "select", Table: "T", Where: []rm.Cond{{Col: "i", Fn: ">=", Val: one(1)}, {Col: "b", Fn: "==", Val: rm.SetOf(rm.B(true))}}})
	for _, iv := range []int64{0, 1, 2, -3} {
		for k, u := range tU {
			add("conj.index+uuid", fmt.Sprintf("select i==%d and _uuid==t%d", iv, k+1), rm.Op{Op: "select", Table: "T", Where: []rm.Cond{{Col: "i", Fn: "==", Val: one(iv)}, {Col: "_uuid", Fn: "==", Val: rm.SetOf(rm.U(u))}}})
			add("conj.index+uuid", fmt.Sprintf("select _uuid==t%d and i==%d", k+1, iv), rm.Op{Op: "select", Table: "T", Where: []rm.Cond{{Col: "_uuid", Fn: "==", Val: rm.SetOf(rm.U(u))}, {Col: "i", Fn: "==", Val: one(iv)}}})
		}
	}
	add("conj", "select i<2 and i>0", rm.Op{Op: "select", Table: "T", Where: []rm.Cond{{Col: "i", Fn: "<", Val: one(2)}, {Col: "i", Fn: ">", Val: one(0)}}})
	add("conj", "delete s==a and ss includes a", rm.Op{Op: "delete", Table: "T", Where: []rm.Cond{{Col: "s", Fn: "==", Val: str("a")}, {Col: "ss", Fn: "includes", Val: str("a")}}}, rm.Op{Op: "select", Table: "T"})
	add("multi-mutation", "mutate all i+=1, i*=2, ss insert z, ss delete a",
		rm.Op{Op: "mutate", Table: "T", Muts: []rm.Mut{{Col: "i", Mutator: "+=", Val: one(1)}, {Col: "i", Mutator: "*=", Val: one(2)},
			{Col: "ss", Mutator: "insert", Val: str("z")}, {Col: "ss", Mutator: "delete", Val: str("a")}}}, rm.Op{Op: "select", Table: "T"})
	add("multi-mutation", "mutate all mss insert k9:v then delete k9:v then insert k1:new",
		rm.Op{Op: "mutate", Table: "T", Muts: []rm.Mut{{Col: "mss", Mutator: "insert", Val: rm.MapOf(rm.S("k9"), rm.S("v"))}, {Col: "mss", Mutator: "delete", Val: rm.MapOf(rm.S("k9"), rm.S("v"))},
			{Col: "mss", Mutator: "insert", Val: rm.MapOf(rm.S("k1"), rm.S("new"))}}}, rm.Op{Op: "select", Table: "T"})
	add("chain", "insert t3; mutate t3; select t3; delete t3; select t3",
		opInsert("T", tU[2], rm.Row{"i": one(5), "ss": rm.SetOf(rm.S("a"))}),
		opMutate("T", tU[2], "i", "+=", one(2)),
		rm.Op{Op: "select", Table: "T", Where: whereUUID(tU[2])},
		opDelete("T", tU[2]),
		rm.Op{Op: "select", Table: "T", Where: whereUUID(tU[2])})
	add("chain.transient-index-duplicate", "update all i:=7; select where i==7; delete where i==7; select all",
		rm.Op{Op: "update", Table: "T", Row: rm.Row{"i": one(7)}},
		rm.Op{Op: "select", Table: "T", Where: []rm.Cond{{Col: "i", Fn: "==", Val: one(7)}}},
		rm.Op{Op: "delete", Table: "T", Where: []rm.Cond{{Col: "i", Fn: "==", Val: one(7)}}},
		rm.Op{Op: "select", Table: "T"})
	add("chain", "insert t3 s=new; update where s==new s:=newer; select where s==newer; mutate where s==newer ss insert q; select t3",
		opInsert("T", tU[2], rm.Row{"s": str("new")}),
		rm.Op{Op: "update", Table: "T", Where: []rm.Cond{{Col: "s", Fn: "==", Val: str("new")}}, Row: rm.Row{"s": str("newer")}},
		rm.Op{Op: "select", Table: "T", Where: []rm.Cond{{Col: "s", Fn: "==", Val: str("newer")}}},
		rm.Op{Op: "mutate", Table: "T", Where: []rm.Cond{{Col: "s", Fn: "==", Val: str("newer")}}, Muts: []rm.Mut{{Col: "ss", Mutator: "insert", Val: str("q")}}},
		rm.Op{Op: "select", Table: "T", Where: whereUUID(tU[2])})
	// a later operation selecting with a condition that an earlier operation of the same transaction made false / true
	bT := []rm.Cond{{Col: "b", Fn: "==", Val: rm.SetOf(rm.B(true))}}
	bF := []rm.Cond{{Col: "b", Fn: "==", Val: rm.SetOf(rm.B(false))}}
	add("chain.condition-no-longer-true", "update where b==true b:=false; select where b==true; select where b==false; mutate where b==false i+=100; select all",
		rm.Op{Op: "update", Table: "T", Where: bT, Row: rm.Row{"b": rm.SetOf(rm.B(false))}},
		rm.Op{Op: "select", Table: "T", Where: bT},
		rm.Op{Op: "select", Table: "T", Where: bF},
		rm.Op{Op: "mutate", Table: "T", Where: bF, Muts: []rm.Mut{{Col: "i", Mutator: "+=", Val: one(100)}}},
		rm.Op{Op: "select", Table: "T"})
	add("chain.condition-no-longer-true", "update where b==false s:=moved,b:=true; delete where b==false; select all",
		rm.Op{Op: "update", Table: "T", Where: bF, Row: rm.Row{"b": rm.SetOf(rm.B(true)), "s": str("moved")}},
		rm.Op{Op: "delete", Table: "T", Where: bF},
		rm.Op{Op: "select", Table: "T"})
	add("chain.deleted-then-selected", "delete where b==true; select where b==true; select all; insert t3 b=true; select where b==true",
		rm.Op{Op: "delete", Table: "T", Where: bT},
		rm.Op{Op: "select", Table: "T", Where: bT},
		rm.Op{Op: "select", Table: "T"},
		opInsert("T", tU[2], rm.Row{"b": rm.SetOf(rm.B(true)), "i": one(77)}),
		rm.Op{Op: "select", Table: "T", Where: bT})
	add("chain.uuid-reused", "insert t3; delete t3; insert t3 again (other values); select t3; select all",
		opInsert("T", tU[2], rm.Row{"i": one(71), "s": str("first")}),
		opDelete("T", tU[2]),
		opInsert("T", tU[2], rm.Row{"i": one(72), "s": str("second")}),
		rm.Op{Op: "select", Table: "T", Where: whereUUID(tU[2])},
		rm.Op{Op: "select", Table: "T"})
	add("chain", "delete t1; insert t1 again; select t1", opDelete("T", tU[0]), opInsert("T", tU[0], rm.Row{"s": str("reborn")}), rm.Op{Op: "select", Table: "T", Where: whereUUID(tU[0])})
	add("chain", "delete all; select all; insert t2; select all", rm.Op{Op: "delete", Table: "T"}, rm.Op{Op: "select", Table: "T"}, opInsert("T", tU[1], rm.Row{"i": one(1)}), rm.Op{Op: "select", Table: "T"})
	// whole-row updates, as a client writing a model back produces them: every column is named, all but one with the value
	// the row may already hold (the rows the states are built from)
	for j, row := range c03StateRows(ref) {
		for _, cn := range c03Cols(ref) {
			c := ref.Tables["T"].Cols[cn]
			if !c.Mutable {
				continue
			}
			uni := c03Universe(c, 0)
			for ai, v := range uni {
				if v.Equal(row[cn]) || ai > 2 {
					continue
				}
				full := rm.Row{}
				for k, x := range row {
					if ref.Tables["T"].Cols[k].Mutable {
						full[k] = x.Clone()
					}
				}
				full[cn] = v.Clone()
				add("update-whole-row."+colShape(c), fmt.Sprintf("update t1 := row%d with %s := #%d; select t1", j, cn, ai), opUpdate("T", tU[0], full), rm.Op{Op: "select", Table: "T", Where: whereUUID(tU[0])})
			}
		}
	}
	// select with a column list
	add("select-columns", "select all columns [s,i]", rm.Op{Op: "select", Table: "T", Columns: []string{"s", "i"}})
	add("select-columns", "select all columns [_uuid]", rm.Op{Op: "select", Table: "T", Columns: []string{"_uuid"}})
	// immutable
	add("immutable.insert", "insert t3 imm=set", opInsert("T", tU[2], rm.Row{"imm": str("set")}), rm.Op{Op: "select", Table: "T", Where: whereUUID(tU[2])})
	add("immutable.update-same", "update t1 imm := its current value (row1)", opUpdate("T", tU[0], rm.Row{"imm": str("a")}))
	add("immutable.update-change", "update all imm := changed", rm.Op{Op: "update", Table: "T", Row: rm.Row{"imm": str("changed")}})
	add("immutable.update-other", "update all imm := b, s := x", rm.Op{Op: "update", Table: "T", Row: rm.Row{"imm": str("b"), "s": str("x")}})
	// wait with timeout 0: class (i) one row by uuid, listed column, non-default expectation
	for _, until := range []string{"==", "!="} {
		for _, want := range []string{"a", "b", "zzz"} {
			add("wait.uuid-one-row.nondefault", fmt.Sprintf("wait t1 s %s %s", until, want),
				rm.Op{Op: "wait", Table: "T", Where: whereUUID(tU[0]), Until: until, Columns: []string{"s"}, Rows: []rm.Row{{"s": str(want)}}})
			add("wait.uuid-one-row.nondefault", fmt.Sprintf("wait t1 i,s %s (1,%s)", until, want),
				rm.Op{Op: "wait", Table: "T", Where: whereUUID(tU[0]), Until: until, Columns: []string{"i", "s"}, Rows: []rm.Row{{"i": one(1), "s": str(want)}}})
		}
		// class (ii): expectation is the column default
		add("wait.uuid-one-row.default", fmt.Sprintf("wait t1 s %s \"\"", until),
			rm.Op{Op: "wait", Table: "T", Where: whereUUID(tU[0]), Until: until, Columns: []string{"s"}, Rows: []rm.Row{{"s": str("")}}})
		add("wait.uuid-one-row.default", fmt.Sprintf("wait t1 ss %s []", until),
			rm.Op{Op: "wait", Table: "T", Where: whereUUID(tU[0]), Until: until, Columns: []string{"ss"}, Rows: []rm.Row{{"ss": rm.SetOf()}}})
		// class (iii): multi-row selections
		add("wait.multi-row", fmt.Sprintf("wait all rows s %s {a}", until),
			rm.Op{Op: "wait", Table: "T", Until: until, Columns: []string{"s"}, Rows: []rm.Row{{"s": str("a")}}})
		add("wait.multi-row", fmt.Sprintf("wait all rows s %s {a,b}", until),
			rm.Op{Op: "wait", Table: "T", Until: until, Columns: []string{"s"}, Rows: []rm.Row{{"s": str("a")}, {"s": str("b")}}})
		// class (iv): rows and expectations compared as SETS of projected rows: several selected rows equal on the waited column
		// (boolean: two of the state rows always agree), duplicate expectation rows
		bv := func(x bool) rm.Value { return rm.SetOf(rm.B(x)) }
		for _, x := range []bool{true, false} {
			add("wait.set-semantics", fmt.Sprintf("wait all rows b %s {%v}", until, x),
				rm.Op{Op: "wait", Table: "T", Until: until, Columns: []string{"b"}, Rows: []rm.Row{{"b": bv(x)}}})
			add("wait.set-semantics", fmt.Sprintf("wait all rows b %s {%v,%v} (duplicate expectation)", until, x, x),
				rm.Op{Op: "wait", Table: "T", Until: until, Columns: []string{"b"}, Rows: []rm.Row{{"b": bv(x)}, {"b": bv(x)}}})
		}
		add("wait.set-semantics", fmt.Sprintf("wait all rows b %s {true,false}", until),
			rm.Op{Op: "wait", Table: "T", Until: until, Columns: []string{"b"}, Rows: []rm.Row{{"b": bv(true)}, {"b": bv(false)}}})
		add("wait.set-semantics", fmt.Sprintf("wait all rows e %s {a}", until),
			rm.Op{Op: "wait", Table: "T", Until: until, Columns: []string{"e"}, Rows: []rm.Row{{"e": str("a")}}})
		// class (v): collections are compared as values, not as stored: the elements of the expectation in reverse order, an
		// empty expectation against a column that was never given a value
		for j, row := range c03StateRows(ref) {
			for _, cn := range []string{"ss", "si", "sr", "su", "mss"} {
				v := row[cn]
				if v.IsMap || len(v.Set) < 2 {
					continue
				}
				rev := rm.Value{}
				for k := len(v.Set) - 1; k >= 0; k-- {
					rev.Set = append(rev.Set, v.Set[k])
				}
				add("wait.collection-as-value", fmt.Sprintf("wait t1 %s %s (row%d's value, elements reversed)", cn, until, j),
					rm.Op{Op: "wait", Table: "T", Where: whereUUID(tU[0]), Until: until, Columns: []string{cn}, Rows: []rm.Row{{cn: rev}}})
			}
		}
		add("wait.collection-as-value", fmt.Sprintf("insert t3 {i:5}; wait t3 ss,mss,si %s empty", until),
			opInsert("T", tU[2], rm.Row{"i": one(5)}),
			rm.Op{Op: "wait", Table: "T", Where: whereUUID(tU[2]), Until: until, Columns: []string{"ss", "mss", "si"}, Rows: []rm.Row{{"ss": rm.SetOf(), "mss": rm.MapOf(), "si": rm.SetOf()}}})
		add("wait.no-row", fmt.Sprintf("wait t3 (absent) s %s {}", until),
			rm.Op{Op: "wait", Table: "T", Where: whereUUID(tU[2]), Until: until, Columns: []string{"s"}, Rows: nil})
	}
	return p
}

// compare one operation result; returns "" or (class suffix, message)
func c03CmpResult(s *sys.Sys, op rm.Op, got ovsdb.OperationResult, want rm.Result) (string, string) {
	t := s.Ref.Tables[op.Table]
	switch op.Op {
	case "insert":
		if got.UUID.GoUUID != want.UUID {
			return "insert-uuid", fmt.Sprintf("insert result uuid %q, stored under %q", got.UUID.GoUUID, want.UUID)
		}
	case "update", "mutate", "delete":
		if got.Count != want.Count {
			return "count", fmt.Sprintf("%s count %d, reference %d", op.Op, got.Count, want.Count)
		}
	case "select":
		cols := op.Columns
		projected := len(cols) > 0
		if !projected {
			cols = t.ColNames()
		}
		conv := map[string]rm.Row{}
		for _, r := range got.Rows {
			rr, err := sys.FromOvsRow(t, r)
			if err != nil {
				return "select-undecodable", err.Error()
			}
			id := ""
			if u, ok := rr["_uuid"]; ok && len(u.Set) == 1 {
				id = u.Set[0].S
			} else {
				id = fmt.Sprintf("row%d", len(conv))
			}
			conv[id] = rr
		}
		wantRows := map[string]rm.Row{}
		for _, r := range want.Rows {
			wantRows[r["_uuid"].Set[0].S] = r
		}
		hasUUID := !projected
		for _, c := range cols {
			if c == "_uuid" {
				hasUUID = true
			}
		}
		if hasUUID || len(got.Rows) == 0 || conv[want0(wantRows)] != nil {
			var g, w []string
			for u := range conv {
				g = append(g, short(u))
			}
			for u := range wantRows {
				w = append(w, short(u))
			}
			sort.Strings(g)
			sort.Strings(w)
			if strings.Join(g, ",") != strings.Join(w, ",") {
				return "select-rows", fmt.Sprintf("select returned rows {%s}, reference {%s}", strings.Join(g, ","), strings.Join(w, ","))
			}
			for u, wr := range wantRows {
				gr := conv[u]
				for _, c := range cols {
					if c == "_uuid" {
						continue
					}
					gv, ok := gr[c]
					if !ok {
						gv = t.Cols[c].Default()
					}
					if !gv.Equal(wr[c]) {
						return "select-values", fmt.Sprintf("select row %s column %s = %s, reference %s", short(u), c, gv, wr[c])
					}
				}
			}
		} else if len(got.Rows) != len(want.Rows) {
			return "select-rows", fmt.Sprintf("select returned %d rows, reference %d", len(got.Rows), len(want.Rows))
		}
		if projected {
			// _uuid is tolerated: the implementation always returns it (its server needs it for monitors)
			allowed := map[string]bool{"_uuid": true}
			for _, c := range cols {
				allowed[c] = true
			}
			for _, r := range got.Rows {
				for c := range r {
					if !allowed[c] {
						return "select-projection", fmt.Sprintf("select with columns %v returned column %s", cols, c)
					}
				}
			}
		}
	}
	return "", ""
}

func want0(m map[string]rm.Row) string {
	for k := range m {
		return k
	}
	return ""
}

func runC03(r *ev.Run) {
	level, depth := 0, 2
	if r.Tier == "thorough" {
		level, depth = 1, 3
		r.SetDeadline(40 * 60 * 1e9)
	} else {
		r.SetDeadline(150 * 1e9)
	}
	r.Set("rule", "state = table contents built from universe rows (every column type populated); transition = one transaction generated from templates (every condition function x column x argument, every mutator x column x argument, update/insert of every column value, multi-condition, multi-mutation, read-your-writes chains, select with columns, immutable columns, zero-timeout waits); per-operation results and resulting contents are compared with the reference model; non-trivial = accepted transaction whose results are not all empty/zero")
	r.Assume("a transaction the reference accepts must be accepted, except mutations libovsdb refuses at validation (arithmetic on sets/optionals, insert/delete on 0..1 columns: unimplemented, counted per class)")
	r.Assume("arguments respect the column types; constraints libovsdb does not implement (enum membership, ranges, max cardinality) stay outside the alphabet")
	dbs := schemas.MustBuild(c03Schema, nil)
	ref := rm.FromOvsdb(dbs.Schema)
	builders := c03Builders(ref)
	probes := c03Probes(ref, level)
	r.Set("alphabet_size", len(builders)+len(probes))
	cfg := dbx.Config{DBS: dbs, Alphabet: builders, Probes: probes, Depth: depth}
	cfg.OnEdge = func(e *dbx.Edge) {
		class := e.Txn.Class
		if class == "" {
			class = "build"
		}
		if e.Panic != "" {
			r.Violation("c03.panic."+class+"."+e.PanicAt, fmt.Sprintf("%s: %s at %s", histStr(e), e.Panic, e.PanicAt), mkCase("S-types", e, e.Panic, ""))
			return
		}
		model := e.Pre.Transact(e.Txn.Ops)
		if !e.Accepted {
			if model.Accepted() {
				r.Add("impl_rejects_model_accepts", 1)
				r.Distinct("impl_rejects_model_accepts_classes", class)
				errText := ""
				for _, x := range e.Res {
					if x.Error != "" && x.Error != "<null>" && errText == "" {
						errText = x.Error + ": " + x.Details
					}
				}
				if e.RPCErr != nil {
					errText = "rpc: " + e.RPCErr.Error()
				}
				errText = addrRe.ReplaceAllString(errText, "0x..")
				if len(errText) > 90 {
					errText = errText[:90]
				}
				r.Distinct("impl_reject_errors", strings.Split(class, ".arg")[0]+" => "+uuidRe.ReplaceAllString(errText, "<uuid>"))
				// tolerated: mutations libovsdb refuses at validation (arithmetic on sets and optionals, insert/delete on 0..1
				// columns): features it does not implement, refused deterministically before anything is executed. Anything else the
				// reference accepts must be accepted
				if !strings.HasPrefix(class, "mutate.") {
					kind := "error"
					switch {
					case strings.Contains(errText, "constraint violation"):
						kind = "constraint-violation"
					case strings.Contains(errText, "sequence of updates not supported"):
						kind = "sequence-of-updates-not-supported"
					case strings.Contains(errText, "already exists"), strings.Contains(errText, "failed warming"):
						kind = "transaction-cache"
					}
					r.Violation("c03.rejected-but-reference-accepts."+class+"."+kind, fmt.Sprintf("%s: rejected (%s), but the reference accepts it", histStr(e), errText), mkCase("S-types", e, errText, ""))
				}
			}
			return
		}
		r.Add("accepted_transactions", 1)
		if !model.Accepted() {
			why := model.Note
			if model.FailedOp >= 0 {
				why = fmt.Sprintf("operation %d: %s (%s)", model.FailedOp, model.Results[model.FailedOp].Err, model.Note)
			}
			r.Violation("c03.accepted-but-reference-rejects."+class, fmt.Sprintf("%s: accepted, but the reference rejects: %s", histStr(e), why), mkCase("S-types", e, why, ""))
			return
		}
		nontrivial := false
		for i, op := range e.Txn.Ops {
			if k, msg := c03CmpResult(e.Sys, op, e.Res[i], model.Results[i]); k != "" {
				if strings.HasPrefix(class, "cond.") || strings.HasPrefix(class, "mutate.") {
					k = "any"
				}
				r.Violation("c03.result."+k+"."+strings.TrimSuffix(strings.TrimSuffix(class, ".select"), ".delete"), fmt.Sprintf("%s: operation %d (%s): %s", histStr(e), i, op.Op, msg), mkCase("S-types", e, msg, model.New.Dump()))
			}
			if model.Results[i].Count > 0 || len(model.Results[i].Rows) > 0 || op.Op == "insert" {
				nontrivial = true
			}
		}
		if e.Post.Dump() != model.New.Dump() {
			base := strings.TrimSuffix(strings.TrimSuffix(class, ".select"), ".delete")
			if !(strings.HasPrefix(class, "cond.") && r.HasSig("c03.result.any."+base)) { // else: same root cause as the result mismatch of this class
				r.Violation("c03.effect."+base, fmt.Sprintf("%s: resulting contents differ from the reference", histStr(e)), mkCase("S-types", e, "post state differs", model.New.Dump()))
			}
		}
		if nontrivial {
			r.Distinct("nontrivial", e.Pre.Dump()+"|"+e.Txn.Name)
		}
		// audit on the live system: reads must not have disturbed anything, the indexed column still finds every row
		var audit []rm.Op
		for _, row := range model.New.T["T"] {
			audit = append(audit, rm.Op{Op: "select", Table: "T", Where: []rm.Cond{{Col: "i", Fn: "==", Val: row["i"]}}})
		}
		audit = append(audit, rm.Op{Op: "select", Table: "T"})
		ares, aerr := e.Sys.TransactRef(audit)
		amodel := model.New.Transact(audit)
		if aerr != nil || len(ares) != len(audit) {
			r.Violation("c03.audit.failed."+class, fmt.Sprintf("%s: follow-up selects failed: %v %s", histStr(e), aerr, ev.J(ares)), mkCase("S-types", e, "audit failed", ""))
		} else {
			for i, op := range audit {
				if k, msg := c03CmpResult(e.Sys, op, ares[i], amodel.Results[i]); k != "" {
					r.Violation("c03.audit."+k+"."+class, fmt.Sprintf("%s ; then select by the indexed column: %s", histStr(e), msg), mkCase("S-types", e, "audit: "+msg, ""))
					break
				}
			}
		}
		r.Add("audits", 1)
		r.Distinct("outcomes", class)
		if len(e.Hist) == 1 && strings.HasPrefix(class, "chain") {
			r.Sample(map[string]interface{}{"history": e.HistName, "txn": e.Txn.Name, "results": e.Sys.CanonResults(sys.OpTables(e.Txn.Ops), e.Res)})
		}
	}
	dbx.Explore(r, cfg)
	r.Set("impl_rejects_model_accepts_class_list", r.DistinctKeys("impl_rejects_model_accepts_classes"))
	r.Set("impl_reject_error_list", r.DistinctKeys("impl_reject_errors"))
	r.Set("traces_validated_against_impl", r.Get("transitions"))
	r.Set("distinct_nontrivial", r.DistinctCount("nontrivial"))
	r.Set("evaluations", r.Get("transitions"))
	r.Set("bound", fmt.Sprintf("universe level %d; every template transaction from every state of depth <= %d (up to %d rows)", level, depth, depth+1))
}
