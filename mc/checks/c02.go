package checks

// C02 — transactions are all-or-nothing.

import (
	"encoding/json"
	"fmt"
	"strings"

	"github.com/ovn-org/libovsdb/ovsdb"

	"verif/mc/dbx"
	"verif/mc/ev"
	rm "verif/mc/refmodel"
	"verif/mc/sys"
)

func init() { register("C02", "model_checking", runC02) }

type failOp struct {
	cause string
	op    rm.Op
	raw   string // raw JSON operation (for shapes the abstract form cannot express)
	// commitTime: the failure is detected at commit (extra result element)
	commitTime bool
}

func c02FailingOps() []failOp {
	str := func(s string) rm.Value { return rm.SetOf(rm.S(s)) }
	ghost := uu("a", 9)
	return []failOp{
		{cause: "abort", raw: `{"op":"abort"}`},
		{cause: "malformed-value", op: opInsert("R", uR[1], rm.Row{"name": rm.SetOf(rm.I(5))})},
		{cause: "malformed-set", op: opUpdate("R", uR[0], rm.Row{"sset": str("notauuid")})},
		{cause: "unknown-table", raw: `{"op":"insert","table":"Nope","row":{}}`},
		{cause: "unknown-column", raw: `{"op":"update","table":"R","where":[],"row":{"nope":1}}`},
		{cause: "unknown-column-where", raw: `{"op":"delete","table":"R","where":[["nope","==",1]]}`},
		{cause: "immutable-update", op: rm.Op{Op: "update", Table: "R", Row: rm.Row{"imm": str("changed")}}},
		{cause: "wrong-mutator", op: rm.Op{Op: "mutate", Table: "R", Muts: []rm.Mut{{Col: "name", Mutator: "+=", Val: rm.SetOf(rm.I(1))}}}},
		{cause: "dangling-strong-insert", op: opInsert("R", uR[1], rm.Row{"name": str("dangling"), "sset": uset(ghost)}), commitTime: true},
		{cause: "dangling-strong-map", op: opInsert("R", uR[1], rm.Row{"name": str("dangling"), "smap": rm.MapOf(rm.S("k"), rm.U(ghost))}), commitTime: true},
		{cause: "delete-referenced", op: rm.Op{Op: "delete", Table: "N1"}, commitTime: true},
		{cause: "duplicate-index", op: opInsert("N2", uu("b", 7), rm.Row{"name": str("b")}), commitTime: true},
		{cause: "duplicate-index-root-table", op: opInsert("PR", uu("4", 9), rm.Row{"name": str("peer")}), commitTime: true},
		{cause: "duplicate-index-2", op: opInsert("N2", uu("b", 8), rm.Row{"name": str("bb1")}), commitTime: true},
		{cause: "duplicate-uuid-name", raw: `{"op":"insert","table":"R","row":{"name":"n1"},"uuid-name":"dup","uuid":"10000000-0000-0000-0000-000000000005"},{"op":"insert","table":"R","row":{"name":"n2"},"uuid-name":"dup","uuid":"10000000-0000-0000-0000-000000000006"}`},
		{cause: "existing-uuid", op: opInsert("R", uR[0], rm.Row{"name": str("again")})},
		{cause: "wait-fails", op: rm.Op{Op: "wait", Table: "R", Until: "==", Columns: []string{"name"}, Rows: []rm.Row{{"name": str("no such name")}}}},
		{cause: "wait-fails-ne", op: rm.Op{Op: "wait", Table: "R", Until: "!=", Columns: []string{"name"}, Rows: nil}},
		{cause: "bad-condition-value", raw: `{"op":"select","table":"R","where":[["name","==",["set",[1,2]]]]}`},
		{cause: "bad-uuid", raw: `{"op":"insert","table":"R","row":{"name":"x"},"uuid":"not-a-uuid"}`},
		{cause: "div-by-zero", raw: `{"op":"mutate","table":"R2","where":[],"mutations":[["one","/=",0]]}`},
	}
}

func c02GoodOps() map[string]rm.Op {
	str := func(s string) rm.Value { return rm.SetOf(rm.S(s)) }
	return map[string]rm.Op{
		"g1": opInsert("R", uu("1", 3), rm.Row{"name": str("g1")}),
		"g2": {Op: "update", Table: "N1", Row: rm.Row{"name": str("g2")}},
		"g3": opDelete("R", uR[0]),
		"g4": {Op: "mutate", Table: "R", Muts: []rm.Mut{{Col: "wset", Mutator: "insert", Val: uset(uN1[0])}}},
		"g5": opInsert("RW", uu("3", 3), rm.Row{"w1": uset(uN1[0])}),
	}
}

func opJSON(s *rm.Schema, op rm.Op) string {
	b, err := json.Marshal(sys.ToOvsOp(s, op))
	if err != nil {
		panic(err)
	}
	return string(b)
}

// c02FailingTxns builds raw transactions: prefix of good ops + failing op + optional suffix.
func c02FailingTxns(s *rm.Schema, level int) []dbx.Txn {
	good := c02GoodOps()
	prefixes := [][]string{{}, {"g1"}, {"g2", "g4"}, {"g1", "g2", "g3"}}
	suffixes := [][]string{{}, {"g5"}}
	if level > 0 {
		prefixes = append(prefixes, []string{"g3"}, []string{"g4"}, []string{"g5", "g1"}, []string{"g2", "g3", "g4"})
	}
	var out []dbx.Txn
	for _, f := range c02FailingOps() {
		fj := f.raw
		if fj == "" {
			fj = opJSON(s, f.op)
		}
		for _, pre := range prefixes {
			for _, suf := range suffixes {
				if f.commitTime && len(suf) > 0 && level == 0 {
					continue
				}
				var parts []string
				for _, g := range pre {
					parts = append(parts, opJSON(s, good[g]))
				}
				parts = append(parts, fj)
				for _, g := range suf {
					parts = append(parts, opJSON(s, good[g]))
				}
				var raws []json.RawMessage
				if err := json.Unmarshal([]byte("["+strings.Join(parts, ",")+"]"), &raws); err != nil {
					panic(fmt.Sprintf("%v: %s", err, strings.Join(parts, ",")))
				}
				args := append([]json.RawMessage{json.RawMessage(`"REF"`)}, raws...)
				out = append(out, dbx.Txn{
					Name:  fmt.Sprintf("[%s] %s [%s]", strings.Join(pre, ","), f.cause, strings.Join(suf, ",")),
					Class: "fail:" + f.cause + fmt.Sprintf(":pre%d", len(pre)),
					Raw:   args,
				})
			}
		}
	}
	return out
}

// shape of a reply: "" if legal per RFC 7047 §4.1.3, else description. nops = operations sent.
func replyShape(res []ovsdb.OperationResult, nops int) string {
	if len(res) != nops && len(res) != nops+1 {
		return fmt.Sprintf("reply has %d elements for %d operations", len(res), nops)
	}
	errAt := -1
	for i, r := range res {
		switch {
		case r.Error == "<null>":
			if errAt < 0 {
				return fmt.Sprintf("null result at %d before any error", i)
			}
		case r.Error != "":
			if errAt >= 0 {
				return fmt.Sprintf("two errors (%d and %d)", errAt, i)
			}
			errAt = i
		default:
			if errAt >= 0 {
				return fmt.Sprintf("result at %d after the error at %d", i, errAt)
			}
		}
	}
	if len(res) == nops+1 && errAt != nops {
		return "extra element is not the only error"
	}
	return ""
}

func runC02(r *ev.Run) {
	level, depth := 0, 2
	if r.Tier == "thorough" {
		level, depth = 1, 3
		r.SetDeadline(40 * 60 * 1e9)
	} else {
		r.SetDeadline(150 * 1e9)
	}
	r.Set("rule", "state = history of committed S-ref transactions on a fresh real server (two recording monitors attached); transition = one failing transaction (every failure cause x prefix of successful operations x suffix) or one transaction of the committing alphabet that the server rejects; non-trivial = failing transaction whose earlier operations had already modified at least one row")
	r.Assume("a transaction counts as failed when the reply carries an error element, has fewer results than operations, or the RPC itself returns an error")
	dbs := srefDB(false)
	alpha := srefAlphabet(level)
	ref := rm.FromOvsdb(dbs.Schema)
	fails := c02FailingTxns(ref, level)
	r.Set("alphabet_size", len(alpha)+len(fails))
	r.Set("failing_transactions", len(fails))
	all := map[string]*ovsdb.MonitorRequest{}
	for t := range dbs.Schema.Tables {
		all[t] = &ovsdb.MonitorRequest{Columns: dbs.Columns(t), Select: ovsdb.NewDefaultMonitorSelect()}
	}
	// sentinels for the differential oracle: later transactions must behave as if the failed one never happened
	str := func(s string) rm.Value { return rm.SetOf(rm.S(s)) }
	sentinels := []dbx.Txn{
		txn("sentinel: ins R g1-uuid", opInsert("R", uu("1", 3), rm.Row{"name": str("s")})),
		txn("sentinel: ins N2 b (index value)", opInsert("N2", uu("b", 7), rm.Row{"name": str("b")}), opUpdate("N1", uN1[0], rm.Row{"next": uset(uu("b", 7))})),
		txn("sentinel: del R r1", opDelete("R", uR[0])),
		txn("sentinel: del all N1", rm.Op{Op: "delete", Table: "N1"}),
		txn("sentinel: R r1 sset:=[]", opUpdate("R", uR[0], rm.Row{"sset": uset(), "sopt": uset(), "smap": rm.MapOf(), "kmap": rm.MapOf()})),
		txn("sentinel: select all R", rm.Op{Op: "select", Table: "R"}, rm.Op{Op: "select", Table: "N1"}),
	}
	cfg := dbx.Config{DBS: dbs, Alphabet: alpha, Probes: fails, Depth: depth,
		Monitors: []dbx.MonSpec{{Method: "monitor", ID: `"m1"`, Req: all}, {Method: "monitor_cond", ID: `"m2"`, Req: all}}}
	cfg.OnEdge = func(e *dbx.Edge) {
		cause := "rejected:" + templ(e.Txn.Name)
		pre := 0
		if strings.HasPrefix(e.Txn.Class, "fail:") {
			p := strings.Split(e.Txn.Class, ":")
			cause = p[1]
			fmt.Sscanf(p[2], "pre%d", &pre)
		}
		if e.Panic != "" {
			r.Violation("c02.panic."+cause+"."+e.PanicAt, fmt.Sprintf("%s: implementation panicked/hung: %s at %s", histStr(e), e.Panic, e.PanicAt), c02Case(e, "panic "+e.Panic))
			return
		}
		nops := len(e.Txn.Ops)
		if e.Txn.Raw != nil {
			nops = len(e.Txn.Raw) - 1
		}
		if e.Accepted {
			if strings.HasPrefix(e.Txn.Class, "fail:") {
				r.Add("failing_probes_that_committed", 1)
				r.Distinct("failing_probes_that_committed_causes", cause)
			}
			return
		}
		r.Add("failed_transactions", 1)
		r.Distinct("outcomes", cause+"/"+errShape(e.Res))
		if pre > 0 || len(e.Res) == nops+1 {
			r.Add("failed_after_modifying_rows", 1)
			r.Distinct("nontrivial", e.Pre.Dump()+"|"+e.Txn.Name)
		}
		if len(e.Hist) == 1 && pre == 2 {
			r.Sample(map[string]interface{}{"history": e.HistName, "failing_txn": e.Txn.Name, "raw": e.Txn.Raw, "results": e.Res})
		}
		// (1) rows and reference index unchanged
		if e.Post.Dump() != e.Pre.Dump() {
			r.Violation("c02.rows-changed."+cause, fmt.Sprintf("%s: failed transaction changed the rows", histStr(e)), c02Case(e, "rows changed"))
		}
		if e.PostRefs != e.PreRefs {
			r.Violation("c02.refs-changed."+cause, fmt.Sprintf("%s: failed transaction changed the reference index:\nbefore:\n%s\nafter:\n%s", histStr(e), e.PreRefs, e.PostRefs), c02Case(e, "reference index changed"))
		}
		// (2) no monitor heard anything
		for _, m := range e.Mons {
			if len(m.Notes) > 0 {
				r.Violation("c02.notified."+cause, fmt.Sprintf("%s: monitor %s was notified of a failed transaction: %s", histStr(e), m.Spec.Method, string(m.Notes[0].Params)), c02Case(e, "monitor notified"))
			}
		}
		// (4) reply shape
		if e.RPCErr == nil {
			if sh := replyShape(e.Res, nops); sh != "" {
				r.Violation("c02.reply-shape."+cause, fmt.Sprintf("%s: %s: %s", histStr(e), sh, ev.J(e.Res)), c02Case(e, sh))
			}
		} else {
			r.Add("rpc_level_errors", 1)
			r.Distinct("rpc_level_error_causes", cause)
		}
		// (3) later transactions behave as if the failed one had never been submitted
		for _, st := range sentinels {
			resA, errA := e2Transact(e.Sys, st)
			postA := e.Sys.State()
			refsA := e.Sys.Refs(postA)
			clean := dbx.Replay(&cfg, e.Hist)
			resB, errB := clean.TransactRef(st.Ops)
			postB := clean.State()
			refsB := clean.Refs(postB)
			r.Add("differential_checks", 1)
			if f, ok := errA.(*sys.ImplFailure); ok {
				r.Violation("c02.later-panics."+cause+"."+f.At, fmt.Sprintf("%s ; then %s: %v", histStr(e), st.Name, f), c02Case(e, f.Error()))
				continue
			}
			crA, crB := e.Sys.CanonResults(sys.OpTables(st.Ops), resA), clean.CanonResults(sys.OpTables(st.Ops), resB)
			if (errA == nil) != (errB == nil) || crA != crB || postA.Dump() != postB.Dump() || refsA != refsB {
				r.Violation("c02.later-differs."+cause, fmt.Sprintf("%s ; then %s: differs from a run that never saw the failed transaction: %s vs %s", histStr(e), st.Name, crA, crB),
					c02Case(e, "later transaction differs: "+st.Name+"\nwith failure: "+ev.J(resA)+"\n"+postA.Dump()+"\nwithout: "+ev.J(resB)+"\n"+postB.Dump()))
			}
			// sentinels are applied to the same live system only once: rebuild it for the next one
			e.Sys = dbx.Replay(&cfg, e.Hist)
			if e.Txn.Raw != nil {
				e.Sys.TransactRaw(e.Txn.Raw)
			} else {
				e.Sys.TransactRef(e.Txn.Ops)
			}
		}
	}
	dbx.Explore(r, cfg)
	r.Set("traces_validated_against_impl", r.Get("transitions"))
	r.Set("distinct_nontrivial", r.DistinctCount("nontrivial"))
	r.Set("evaluations", r.Get("transitions"))
	r.Set("bound", fmt.Sprintf("alphabet level %d; every failing transaction from every state of depth <= %d", level, depth))
}

func e2Transact(s *sys.Sys, t dbx.Txn) ([]ovsdb.OperationResult, error) { return s.TransactRef(t.Ops) }

func c02Case(e *dbx.Edge, msg string) interface{} {
	return map[string]interface{}{"history": e.HistName, "transaction": e.Txn.Name, "raw_params": e.Txn.Raw, "ops": e.Txn.Ops,
		"pre_state": e.Pre.Dump(), "post_state": e.Post.Dump(), "pre_refs": e.PreRefs, "post_refs": e.PostRefs, "results": e.Res, "rpc_error": fmt.Sprint(e.RPCErr), "msg": msg}
}
