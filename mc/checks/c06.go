package checks

// C06 — unique indexes are enforced at commit, and only at commit.

import (
	"fmt"
	"sort"
	"strings"

	"github.com/google/uuid"
	"github.com/ovn-org/libovsdb/database"
	"github.com/ovn-org/libovsdb/model"
	"github.com/ovn-org/libovsdb/ovsdb"

	"verif/mc/dbx"
	"verif/mc/ev"
	"verif/mc/par"
	rm "verif/mc/refmodel"
	"verif/mc/schemas"
	"verif/mc/sys"
)

func init() { register("C06", "model_checking", runC06) }

const c06Schema = `{"name":"IDX","version":"1.0.0","tables":{
 "T":{"columns":{
   "a":{"type":"string"},
   "b":{"type":"string"},
   "c":{"type":{"key":{"type":"string"},"min":0,"max":1}},
   "n":{"type":"integer"},
   "free":{"type":"string"}},
  "indexes":[["a"],["b","c"],["n"]],"isRoot":true},
 "P":{"columns":{"qs":{"type":{"key":{"type":"uuid","refTable":"Q","refType":"strong"},"min":0,"max":"unlimited"}}},"isRoot":true},
 "Q":{"columns":{"k":{"type":"string"},"v":{"type":"string"}},"indexes":[["k"]]}
}}`

var (
	uT = []string{uu("d", 1), uu("d", 2), uu("d", 3)}
	uP = []string{uu("e", 1)}
	uQ = []string{uu("f", 1), uu("f", 2)}
)

type c06Row struct {
	a, b string
	c    string // "" = unset
	n    int64
}

func (x c06Row) row() rm.Row {
	r := rm.Row{"a": rm.SetOf(rm.S(x.a)), "b": rm.SetOf(rm.S(x.b)), "n": rm.SetOf(rm.I(x.n))}
	if x.c != "" {
		r["c"] = rm.SetOf(rm.S(x.c))
	}
	return r
}

func c06Alphabet(level int) []dbx.Txn {
	var a []dbx.Txn
	add := func(name string, ops ...rm.Op) { a = append(a, txn(name, ops...)) }
	str := func(s string) rm.Value { return rm.SetOf(rm.S(s)) }
	vals := []c06Row{{"x", "p", "", 1}, {"y", "p", "q", 2}, {"z", "r", "q", 3}, {"x", "r", "", 4}, {"w", "p", "", 5}, {"y", "s", "t", 1}}
	ts := uT
	for i, t := range ts {
		for vi, v := range vals {
			if level == 0 && vi > i+3 {
				continue
			}
			add(fmt.Sprintf("ins T d%d v%d", i+1, vi), opInsert("T", t, v.row()))
		}
		add(fmt.Sprintf("del T d%d", i+1), opDelete("T", t))
		for _, x := range []string{"x", "y", "z"} {
			add(fmt.Sprintf("T d%d.a:=%s", i+1, x), opUpdate("T", t, rm.Row{"a": str(x)}))
		}
		add(fmt.Sprintf("T d%d.c:=[]", i+1), opUpdate("T", t, rm.Row{"c": rm.SetOf()}))
		add(fmt.Sprintf("T d%d.c:=q", i+1), opUpdate("T", t, rm.Row{"c": str("q")}))
		add(fmt.Sprintf("T d%d.b:=p", i+1), opUpdate("T", t, rm.Row{"b": str("p")}))
		add(fmt.Sprintf("T d%d.free:=f", i+1), opUpdate("T", t, rm.Row{"free": str("f")}))
	}
	// swaps and hand-overs inside one transaction
	for i := 0; i < len(ts); i++ {
		for j := 0; j < len(ts); j++ {
			if i == j {
				continue
			}
			add(fmt.Sprintf("swap a: d%d:=y d%d:=x", i+1, j+1), opUpdate("T", ts[i], rm.Row{"a": str("y")}), opUpdate("T", ts[j], rm.Row{"a": str("x")}))
			add(fmt.Sprintf("handover a: d%d:=z d%d:=x", i+1, j+1), opUpdate("T", ts[i], rm.Row{"a": str("z")}), opUpdate("T", ts[j], rm.Row{"a": str("x")}))
			add(fmt.Sprintf("del d%d + ins d%d v0", i+1, j+1), opDelete("T", ts[i]), opInsert("T", ts[j], vals[0].row()))
			add(fmt.Sprintf("ins d%d v0 + del d%d", j+1, i+1), opInsert("T", ts[j], vals[0].row()), opDelete("T", ts[i]))
			add(fmt.Sprintf("ins d%d v1 + fix d%d.a:=w,n:=9,c:=[]", j+1, i+1), opInsert("T", ts[j], vals[1].row()),
				opUpdate("T", ts[i], rm.Row{"a": str("w"), "n": rm.SetOf(rm.I(9)), "c": rm.SetOf()}))
		}
	}
	// two new rows sharing an indexed value while the committed holder of that value is deleted in the same transaction
	// (the deletion makes the conflict with the committed row ignorable; the conflict between the two new rows is not)
	dupA := c06Row{"x", "s", "", 7}
	for i := 0; i < len(ts); i++ {
		j, k := (i+1)%len(ts), (i+2)%len(ts)
		add(fmt.Sprintf("ins d%d v0 + ins d%d (a=x again) + del d%d", j+1, k+1, i+1), opInsert("T", ts[j], vals[0].row()), opInsert("T", ts[k], dupA.row()), opDelete("T", ts[i]))
		add(fmt.Sprintf("del d%d + ins d%d v0 + ins d%d (a=x again)", i+1, j+1, k+1), opDelete("T", ts[i]), opInsert("T", ts[j], vals[0].row()), opInsert("T", ts[k], dupA.row()))
		add(fmt.Sprintf("ins d%d v0 + del d%d + ins d%d (a=x again)", j+1, i+1, k+1), opInsert("T", ts[j], vals[0].row()), opDelete("T", ts[i]), opInsert("T", ts[k], dupA.row()))
		add(fmt.Sprintf("ins d%d v0 + d%d.a:=x + del d%d", j+1, k+1, i+1), opInsert("T", ts[j], vals[0].row()), opUpdate("T", ts[k], rm.Row{"a": str("x")}), opDelete("T", ts[i]))
	}
	// a select between a deletion and the insertion that takes over the unique value (the select must not bring the deleted row back);
	// a UUID inserted, deleted and inserted again in one transaction is as alive as any other row
	for i := 0; i < len(ts); i++ {
		j, k := (i+1)%len(ts), (i+2)%len(ts)
		add(fmt.Sprintf("del d%d + select all + ins d%d v0", i+1, j+1), opDelete("T", ts[i]), rm.Op{Op: "select", Table: "T"}, opInsert("T", ts[j], vals[0].row()))
		add(fmt.Sprintf("ins d%d v0; del d%d; ins d%d v0 again; ins d%d (a=x again)", j+1, j+1, j+1, k+1),
			opInsert("T", ts[j], vals[0].row()), opDelete("T", ts[j]), opInsert("T", ts[j], vals[0].row()), opInsert("T", ts[k], dupA.row()))
		add(fmt.Sprintf("ins d%d v0; del d%d; ins d%d v1 instead; ins d%d (a=x)", j+1, j+1, j+1, k+1),
			opInsert("T", ts[j], vals[0].row()), opDelete("T", ts[j]), opInsert("T", ts[j], vals[1].row()), opInsert("T", ts[k], dupA.row()))
	}
	add("all T n+=1", rm.Op{Op: "mutate", Table: "T", Muts: []rm.Mut{{Col: "n", Mutator: "+=", Val: rm.SetOf(rm.I(1))}}})
	add("all T n-=1", rm.Op{Op: "mutate", Table: "T", Muts: []rm.Mut{{Col: "n", Mutator: "-=", Val: rm.SetOf(rm.I(1))}}})
	add("all T a:=x", rm.Op{Op: "update", Table: "T", Row: rm.Row{"a": str("x")}})
	add("del all T", rm.Op{Op: "delete", Table: "T"})
	add("transient: all a:=x then fix each", rm.Op{Op: "update", Table: "T", Row: rm.Row{"a": str("x")}},
		opUpdate("T", ts[0], rm.Row{"a": str("u1")}), opUpdate("T", ts[1], rm.Row{"a": str("u2")}), opUpdate("T", ts[2], rm.Row{"a": str("u3")}))
	// indexed non-root rows: garbage collection then reuse of the value
	add("ins P e1", opInsert("P", uP[0], rm.Row{}))
	add("del P e1", opDelete("P", uP[0]))
	for i, q := range uQ {
		add(fmt.Sprintf("ins Q f%d k=k + P.qs+=", i+1), opInsert("Q", q, rm.Row{"k": str("k"), "v": str(fmt.Sprint(i))}), opMutate("P", uP[0], "qs", "insert", uset(q)))
		add(fmt.Sprintf("ins Q f%d k=k%d + P.qs+=", i+1, i+1), opInsert("Q", q, rm.Row{"k": str(fmt.Sprintf("k%d", i+1))}), opMutate("P", uP[0], "qs", "insert", uset(q)))
		add(fmt.Sprintf("P.qs-=f%d", i+1), opMutate("P", uP[0], "qs", "delete", uset(q)))
		add(fmt.Sprintf("Q f%d.k:=k", i+1), opUpdate("Q", q, rm.Row{"k": str("k")}))
		add(fmt.Sprintf("ins Q f%d k=k unreferenced", i+1), opInsert("Q", q, rm.Row{"k": str("k")}))
	}
	add("P.qs:=[f2] + ins Q f2 k=k (replaces f1)", opInsert("Q", uQ[1], rm.Row{"k": str("k")}), opUpdate("P", uP[0], rm.Row{"qs": uset(uQ[1])}))
	// the same replacement when the transaction has already read or touched the row that is about to be collected
	repl := []rm.Op{opInsert("Q", uQ[1], rm.Row{"k": str("k")}), opUpdate("P", uP[0], rm.Row{"qs": uset(uQ[1])})}
	add("select Q; P.qs:=[f2] + ins Q f2 k=k (replaces f1)", append([]rm.Op{{Op: "select", Table: "Q"}}, repl...)...)
	add("Q f1.v:=touched; P.qs:=[f2] + ins Q f2 k=k (replaces f1)", append([]rm.Op{opUpdate("Q", uQ[0], rm.Row{"v": str("touched")})}, repl...)...)
	add("wait Q f1; P.qs:=[f2] + ins Q f2 k=k (replaces f1)", append([]rm.Op{{Op: "wait", Table: "Q", Where: whereUUID(uQ[0]), Until: "==", Columns: []string{"k"}, Rows: []rm.Row{{"k": str("k")}}}}, repl...)...)
	add("P.qs-=f1; select Q; ins Q f2 k=k + P.qs+=f2", opMutate("P", uP[0], "qs", "delete", uset(uQ[0])), rm.Op{Op: "select", Table: "Q"}, opInsert("Q", uQ[1], rm.Row{"k": str("k")}), opMutate("P", uP[0], "qs", "insert", uset(uQ[1])))
	return a
}

// permUpdate replays the row callbacks of an update in a chosen order.
type permUpdate struct {
	database.Update
	perm []int
}

func (p permUpdate) ForEachModelUpdate(table string, do func(uuid string, old, new model.Model) error) error {
	type cb struct {
		uuid     string
		old, new model.Model
	}
	var cbs []cb
	if err := p.Update.ForEachModelUpdate(table, func(uuid string, old, new model.Model) error {
		cbs = append(cbs, cb{uuid, old, new})
		return nil
	}); err != nil {
		return err
	}
	sort.Slice(cbs, func(i, j int) bool { return cbs[i].uuid < cbs[j].uuid })
	for _, i := range p.perm {
		if i < len(cbs) {
			if err := do(cbs[i].uuid, cbs[i].old, cbs[i].new); err != nil {
				return err
			}
		}
	}
	return nil
}

func indexDup(d *rm.DB) string {
	for tn, t := range d.S.Tables {
		for _, ix := range t.Indexes {
			seen := map[string]string{}
			for u, r := range d.T[tn] {
				var p []string
				for _, c := range ix {
					p = append(p, r[c].String())
				}
				k := strings.Join(p, "|")
				if o, ok := seen[k]; ok {
					return fmt.Sprintf("table %s index %v: rows %s and %s both hold %s", tn, ix, short(o), short(u), k)
				}
				seen[k] = u
			}
		}
	}
	return ""
}

func runC06(r *ev.Run) {
	level, depth := 0, 2
	if r.Tier == "thorough" {
		level, depth = 1, 3
		r.SetDeadline(40 * 60 * 1e9)
	} else {
		r.SetDeadline(150 * 1e9)
	}
	r.Set("rule", "state = history of committed transactions on a fresh real server (schema with indexes [a], [b,c] with optional c, [n], and an indexed non-root table); transition = one transaction of the S-idx alphabet; non-trivial = transaction that creates a duplicate index value transiently or in its final state")
	dbs := schemas.MustBuild(c06Schema, nil)
	alpha := c06Alphabet(level)
	r.Set("alphabet_size", len(alpha))
	cfg := dbx.Config{DBS: dbs, Alphabet: alpha, Depth: depth}
	cfg.OnEdge = func(e *dbx.Edge) {
		tp := templ(e.Txn.Name)
		if e.Panic != "" {
			r.Violation("c06.panic."+e.PanicAt, fmt.Sprintf("%s: %s at %s", histStr(e), e.Panic, e.PanicAt), mkCase("S-idx", e, e.Panic, ""))
			return
		}
		model := e.Pre.Transact(e.Txn.Ops)
		plain := (&rm.DB{S: stripIndexes(e.Pre.S), T: e.Pre.Clone().T}).Transact(e.Txn.Ops)
		r.Distinct("outcomes", fmt.Sprintf("%v/%v/%s", e.Accepted, model.Accepted(), model.CommitErr))
		// transient duplicates: does any intermediate state of the operation sequence hold one?
		transient := false
		{
			w := &rm.DB{S: stripIndexes(e.Pre.S), T: e.Pre.Clone().T}
			for i := range e.Txn.Ops {
				o := w.Transact(e.Txn.Ops[i : i+1])
				if !o.Accepted() {
					break
				}
				w = &rm.DB{S: w.S, T: o.New.T}
				if i < len(e.Txn.Ops)-1 && indexDup(&rm.DB{S: e.Pre.S, T: w.T}) != "" {
					transient = true
				}
			}
		}
		finalDup := plain.Accepted() && model.CommitErr == "constraint violation" && strings.HasPrefix(model.Note, "index")
		if transient || finalDup {
			r.Add("transactions_with_duplicates", 1)
			r.Distinct("nontrivial", e.Pre.Dump()+"|"+e.Txn.Name)
		}
		if e.Accepted {
			if d := indexDup(e.Post); d != "" {
				r.Violation("c06.duplicate-committed."+tp, fmt.Sprintf("%s: %s", histStr(e), d), mkCase("S-idx", e, d, ""))
			}
			if model.Accepted() && e.Post.Dump() != model.New.Dump() {
				r.Violation("c06.post-state."+tp, fmt.Sprintf("%s: stored rows differ from the reference", histStr(e)), mkCase("S-idx", e, "post state differs", model.New.Dump()))
			}
		} else {
			// rejected: if the reference accepts, the rejection must not be about an index
			last := e.Res[len(e.Res)-1]
			nops := len(e.Txn.Ops)
			indexRejection := len(e.Res) == nops+1 && last.Error == "constraint violation" && strings.Contains(last.Details, "identical values")
			if model.Accepted() && indexRejection {
				kind := "final-state-unique"
				if transient {
					kind = "transient-duplicate"
				}
				r.Violation("c06.rejected-without-duplicate."+kind+"."+tp, fmt.Sprintf("%s: rejected for an index although the final state has no duplicate: %s", histStr(e), last.Details), mkCase("S-idx", e, last.Details, model.New.Dump()))
			}
			if finalDup && !(len(e.Res) == nops+1 && last.Error == "constraint violation") {
				r.Violation("c06.wrong-rejection."+tp, fmt.Sprintf("%s: final-state duplicate must be reported as a constraint violation in the extra element, got %s", histStr(e), ev.J(e.Res)), mkCase("S-idx", e, "wrong rejection", ""))
			}
			if e.Post.Dump() != e.Pre.Dump() {
				r.Violation("c06.rejected-but-changed."+tp, fmt.Sprintf("%s: rejected transaction changed rows", histStr(e)), mkCase("S-idx", e, "rows changed", ""))
			}
		}
		if finalDup && e.Accepted {
			r.Violation("c06.duplicate-accepted."+tp, fmt.Sprintf("%s: final state holds a duplicate (%s) but the transaction was committed", histStr(e), model.Note), mkCase("S-idx", e, model.Note, ""))
		}
		if len(e.Hist) == 1 && transient {
			r.Sample(map[string]interface{}{"history": e.HistName, "txn": e.Txn.Name, "accepted": e.Accepted, "transient_duplicate": transient})
		}
		// commit in every order of the row callbacks (Go map order in the implementation)
		if e.Accepted && len(e.Txn.Ops) > 1 {
			ops := make([]ovsdb.Operation, len(e.Txn.Ops))
			for i, op := range e.Txn.Ops {
				ops[i] = sys.ToOvsOp(e.Sys.Ref, op)
			}
			par.Perms(3, func(p []int) bool {
				s2 := dbx.Replay(&cfg, e.Hist)
				tx := s2.DB.NewTransaction(s2.Name)
				opsCopy := append([]ovsdb.Operation{}, ops...)
				res, upd := tx.Transact(opsCopy...)
				for _, x := range res {
					if x == nil || x.Error != "" {
						return true // depends on direct-call value types; the wire path was already checked
					}
				}
				if err := s2.DB.Commit(s2.Name, uuid.New(), permUpdate{upd, append([]int{}, p...)}); err != nil {
					r.Violation("c06.commit-order.error."+tp, fmt.Sprintf("%s: Commit with row order %v failed: %v", histStr(e), p, err), mkCase("S-idx", e, err.Error(), ""))
					return true
				}
				r.Add("commit_orders", 1)
				st := s2.State()
				if st.Dump() != e.Post.Dump() {
					r.Violation("c06.commit-order.rows."+tp, fmt.Sprintf("%s: Commit with row order %v gives different rows", histStr(e), p), mkCase("S-idx", e, "order dependent", st.Dump()))
				}
				// the database's own index must still find every row and reject duplicates
				for tn, t := range st.S.Tables {
					for _, ix := range t.Indexes {
						for u, row := range st.T[tn] {
							var conds []ovsdb.Condition
							for _, c := range ix {
								conds = append(conds, ovsdb.NewCondition(c, ovsdb.ConditionEqual, sys.ToOvs(t.Cols[c], row[c])))
							}
							got, err := s2.DB.List(s2.Name, tn, conds...)
							if err != nil || len(got) != 1 || got[u] == nil {
								r.Violation("c06.commit-order.index-lookup."+tp, fmt.Sprintf("%s: after Commit with row order %v row %s is not found through index %v (got %d rows, err %v)", histStr(e), p, short(u), ix, len(got), err), mkCase("S-idx", e, "index lookup", ""))
							}
						}
					}
				}
				return true
			})
		}
	}
	dbx.Explore(r, cfg)
	r.Set("traces_validated_against_impl", r.Get("transitions"))
	r.Set("distinct_nontrivial", r.DistinctCount("nontrivial"))
	r.Set("evaluations", r.Get("transitions"))
	r.Set("bound", fmt.Sprintf("alphabet level %d; every transaction from every state of depth <= %d; every order of up to 3 row callbacks at commit", level, depth))
}

var strippedIdx = map[*rm.Schema]*rm.Schema{}

func stripIndexes(s *rm.Schema) *rm.Schema {
	strippedMu <- struct{}{}
	defer func() { <-strippedMu }()
	if p, ok := strippedIdx[s]; ok {
		return p
	}
	p := &rm.Schema{Name: s.Name, Tables: map[string]*rm.Table{}}
	for tn, t := range s.Tables {
		nt := *t
		nt.Indexes = nil
		p.Tables[tn] = &nt
	}
	strippedIdx[s] = p
	return p
}
