package checks

// C15 — named UUIDs resolve consistently within a transaction.

import (
	"context"
	"fmt"
	"strings"

	"github.com/go-logr/logr"
	"github.com/ovn-org/libovsdb/cache"
	"github.com/ovn-org/libovsdb/client"
	"github.com/ovn-org/libovsdb/ovsdb"

	"verif/mc/ev"
	"verif/mc/par"
	rm "verif/mc/refmodel"
	"verif/mc/schemas"
	"verif/mc/sys"
)

func init() { register("C15", "exploration", runC15) }

const c15Schema = `{"name":"NU","version":"1.0.0","tables":{"A":{"columns":{
 "name":{"type":"string"},
 "one":{"type":"uuid"},
 "opt":{"type":{"key":{"type":"uuid"},"min":0,"max":1}},
 "set":{"type":{"key":{"type":"uuid"},"min":0,"max":"unlimited"}},
 "mks":{"type":{"key":{"type":"uuid"},"value":{"type":"string"},"min":0,"max":"unlimited"}},
 "msv":{"type":{"key":{"type":"string"},"value":{"type":"uuid"},"min":0,"max":"unlimited"}},
 "muu":{"type":{"key":{"type":"uuid"},"value":{"type":"uuid"},"min":0,"max":"unlimited"}},
 "mki":{"type":{"key":{"type":"uuid"},"value":{"type":"integer"},"min":0,"max":"unlimited"}},
 "str":{"type":"string"},
 "sstr":{"type":{"key":{"type":"string"},"min":0,"max":"unlimited"}},
 "mstr":{"type":{"key":{"type":"string"},"value":{"type":"string"},"min":0,"max":"unlimited"}}
},"isRoot":true},
"L":{"columns":{"name":{"type":"string"},"str":{"type":"string"}},"isRoot":true},
"B":{"columns":{"peer":{"type":{"key":{"type":"uuid","refTable":"A","refType":"strong"},"min":0,"max":"unlimited"}},"owner":{"type":{"key":{"type":"uuid","refTable":"A","refType":"weak"},"value":{"type":"string"},"min":0,"max":"unlimited"}}},"isRoot":true}}}`

var (
	c15E1 = uu("5", 1) // existing rows
	c15E2 = uu("5", 2)
	c15N1 = uu("5", 7) // explicit uuid for name n1
	c15N2 = uu("5", 8)
)

type c15Use struct {
	name string
	// ops using named uuid `nm` (a uuid atom whose text is the name); may touch existing rows e1/e2
	ops func(nm, tb string) []rm.Op // tb: the table the named row is inserted into
}

func c15Uses() []c15Use {
	n := func(nm string) rm.Atom { return rm.Atom{K: 'u', S: nm} }
	str := func(s string) rm.Value { return rm.SetOf(rm.S(s)) }
	var u []c15Use
	add := func(name string, f func(nm, tb string) []rm.Op) { u = append(u, c15Use{name, f}) }
	// row values of an update of an existing row, each column kind
	add("update.scalar", func(nm, tb string) []rm.Op { return []rm.Op{opUpdate("A", c15E1, rm.Row{"one": rm.SetOf(n(nm))})} })
	add("update.optional", func(nm, tb string) []rm.Op { return []rm.Op{opUpdate("A", c15E1, rm.Row{"opt": rm.SetOf(n(nm))})} })
	add("update.set", func(nm, tb string) []rm.Op {
		return []rm.Op{opUpdate("A", c15E1, rm.Row{"set": rm.SetOf(n(nm), rm.U(c15E2))})}
	})
	add("update.set-single", func(nm, tb string) []rm.Op { return []rm.Op{opUpdate("A", c15E1, rm.Row{"set": rm.SetOf(n(nm))})} })
	add("update.map-key", func(nm, tb string) []rm.Op {
		return []rm.Op{opUpdate("A", c15E1, rm.Row{"mks": rm.MapOf(n(nm), rm.S("v"))})}
	})
	add("update.map-key-int-value", func(nm, tb string) []rm.Op {
		return []rm.Op{opUpdate("A", c15E1, rm.Row{"mki": rm.MapOf(n(nm), rm.I(5))})}
	})
	add("update.map-value", func(nm, tb string) []rm.Op {
		return []rm.Op{opUpdate("A", c15E1, rm.Row{"msv": rm.MapOf(rm.S("k"), n(nm))})}
	})
	add("update.map-key-and-value", func(nm, tb string) []rm.Op {
		return []rm.Op{opUpdate("A", c15E1, rm.Row{"muu": rm.MapOf(n(nm), n(nm), rm.U(c15E2), rm.U(c15E2))})}
	})
	add("update.map-uuid-key-other-value", func(nm, tb string) []rm.Op {
		return []rm.Op{opUpdate("A", c15E1, rm.Row{"muu": rm.MapOf(n(nm), rm.U(c15E2))})}
	})
	// row values of another insert
	add("insert.row-values", func(nm, tb string) []rm.Op {
		return []rm.Op{opInsert("A", uu("5", 5), rm.Row{"name": str("other"), "one": rm.SetOf(n(nm)), "set": rm.SetOf(n(nm)), "msv": rm.MapOf(rm.S("k"), n(nm)), "mks": rm.MapOf(n(nm), rm.S("v"))})}
	})
	add("insert.reference-columns", func(nm, tb string) []rm.Op {
		return []rm.Op{opInsert("B", uu("6", 1), rm.Row{"peer": rm.SetOf(n(nm)), "owner": rm.MapOf(n(nm), rm.S("me"))})}
	})
	// conditions
	add("where._uuid", func(nm, tb string) []rm.Op {
		return []rm.Op{{Op: "update", Table: tb, Where: []rm.Cond{{Col: "_uuid", Fn: "==", Val: rm.SetOf(n(nm))}}, Row: rm.Row{"str": str("touched")}}}
	})
	add("where.scalar-column", func(nm, tb string) []rm.Op {
		return []rm.Op{
			opUpdate("A", c15E2, rm.Row{"one": rm.SetOf(n(nm))}),
			{Op: "update", Table: "A", Where: []rm.Cond{{Col: "one", Fn: "==", Val: rm.SetOf(n(nm))}}, Row: rm.Row{"str": str("found by one")}}}
	})
	add("where.set-includes", func(nm, tb string) []rm.Op {
		return []rm.Op{
			opUpdate("A", c15E2, rm.Row{"set": rm.SetOf(n(nm), rm.U(c15E1))}),
			{Op: "update", Table: "A", Where: []rm.Cond{{Col: "set", Fn: "includes", Val: rm.SetOf(n(nm))}}, Row: rm.Row{"str": str("found by set")}}}
	})
	add("where.delete-by-name", func(nm, tb string) []rm.Op {
		return []rm.Op{{Op: "delete", Table: tb, Where: []rm.Cond{{Col: "_uuid", Fn: "==", Val: rm.SetOf(n(nm))}}}}
	})
	add("where.select-by-name", func(nm, tb string) []rm.Op {
		return []rm.Op{{Op: "select", Table: tb, Where: []rm.Cond{{Col: "_uuid", Fn: "==", Val: rm.SetOf(n(nm))}}}}
	})
	// mutations
	add("mutate.set-insert", func(nm, tb string) []rm.Op { return []rm.Op{opMutate("A", c15E1, "set", "insert", rm.SetOf(n(nm)))} })
	add("mutate.set-insert-two", func(nm, tb string) []rm.Op {
		return []rm.Op{opMutate("A", c15E1, "set", "insert", rm.SetOf(n(nm), rm.U(c15E2)))}
	})
	add("mutate.set-delete", func(nm, tb string) []rm.Op {
		return []rm.Op{opMutate("A", c15E1, "set", "insert", rm.SetOf(n(nm), rm.U(c15E2))), opMutate("A", c15E1, "set", "delete", rm.SetOf(n(nm)))}
	})
	add("mutate.map-insert-key", func(nm, tb string) []rm.Op {
		return []rm.Op{opMutate("A", c15E1, "mks", "insert", rm.MapOf(n(nm), rm.S("v")))}
	})
	add("mutate.map-insert-value", func(nm, tb string) []rm.Op {
		return []rm.Op{opMutate("A", c15E1, "msv", "insert", rm.MapOf(rm.S("k"), n(nm)))}
	})
	add("mutate.map-delete-pair", func(nm, tb string) []rm.Op {
		return []rm.Op{opMutate("A", c15E1, "msv", "insert", rm.MapOf(rm.S("k"), n(nm))), opMutate("A", c15E1, "msv", "delete", rm.MapOf(rm.S("k"), n(nm)))}
	})
	add("mutate.map-delete-by-key-set", func(nm, tb string) []rm.Op {
		return []rm.Op{opMutate("A", c15E1, "mks", "insert", rm.MapOf(n(nm), rm.S("v"), rm.U(c15E2), rm.S("w"))), opMutate("A", c15E1, "mks", "delete", rm.SetOf(n(nm)))}
	})
	add("mutate.map-uuid-uuid-delete-by-key-set", func(nm, tb string) []rm.Op {
		return []rm.Op{opMutate("A", c15E1, "muu", "insert", rm.MapOf(n(nm), rm.U(c15E2))), opMutate("A", c15E1, "muu", "delete", rm.SetOf(n(nm)))}
	})
	// the same text as string data: must stay untouched
	add("string-data", func(nm, tb string) []rm.Op {
		return []rm.Op{opUpdate("A", c15E1, rm.Row{"str": str(nm), "sstr": rm.SetOf(rm.S(nm), rm.S("x")), "mstr": rm.MapOf(rm.S(nm), rm.S(nm)), "msv": rm.MapOf(rm.S(nm), rm.U(c15E2)), "mks": rm.MapOf(rm.U(c15E2), rm.S(nm))})}
	})
	// wait on a named row
	add("wait", func(nm, tb string) []rm.Op {
		return []rm.Op{{Op: "wait", Table: tb, Where: []rm.Cond{{Col: "_uuid", Fn: "==", Val: rm.SetOf(n(nm))}}, Until: "==", Columns: []string{"name"}, Rows: []rm.Row{{"name": str("named-" + nm)}}}}
	})
	return u
}

type c15Txn struct {
	name   string
	ops    []rm.Op
	mustRe bool // must be rejected
}

func c15Txns(level int) []c15Txn {
	var out []c15Txn
	str := func(s string) rm.Value { return rm.SetOf(rm.S(s)) }
	for _, tb := range []string{"A", "L"} {
		tb := tb
		def := func(nm, explicit string) rm.Op {
			return rm.Op{Op: "insert", Table: tb, UUIDName: nm, UUID: explicit, Row: rm.Row{"name": str("named-" + nm)}}
		}
		sfx := ""
		if tb == "L" {
			sfx = " named-row-in-a-table-without-uuid-columns"
		}
		for _, use := range c15Uses() {
			if tb == "L" && use.name == "insert.reference-columns" {
				continue // B's references point at table A
			}
			for _, explicit := range []bool{true, false} {
				for _, before := range []bool{false, true} {
					ex := ""
					if explicit {
						ex = c15N1
					}
					var ops []rm.Op
					if before {
						ops = append(append(ops, use.ops("n1", tb)...), def("n1", ex))
					} else {
						ops = append(append(ops, def("n1", ex)), use.ops("n1", tb)...)
					}
					out = append(out, c15Txn{name: fmt.Sprintf("%s explicit=%v use-before-insert=%v%s", use.name, explicit, before, sfx), ops: ops})
				}
			}
			// two names, uses interleaved: n2's use before n1's insert, n1's use after n2's insert
			ops := append([]rm.Op{}, use.ops("n2", tb)...)
			ops = append(ops, def("n1", c15N1), def("n2", ""))
			if !strings.HasPrefix(use.name, "where.delete") && !strings.HasPrefix(use.name, "insert.") {
				u1 := use.ops("n1", tb)
				ops = append(ops, u1[len(u1)-1])
			}
			out = append(out, c15Txn{name: use.name + " two names" + sfx, ops: ops})
		}
	}
	// the named row referring to itself and to the other
	n := func(nm string) rm.Atom { return rm.Atom{K: 'u', S: nm} }
	out = append(out, c15Txn{name: "self-reference", ops: []rm.Op{{Op: "insert", Table: "A", UUIDName: "n1", Row: rm.Row{"name": str("self"), "one": rm.SetOf(n("n1")), "set": rm.SetOf(n("n1")), "muu": rm.MapOf(n("n1"), n("n1"))}}}})
	out = append(out, c15Txn{name: "mutual-reference", ops: []rm.Op{
		{Op: "insert", Table: "A", UUIDName: "n1", Row: rm.Row{"name": str("first"), "one": rm.SetOf(n("n2")), "mks": rm.MapOf(n("n2"), rm.S("second"))}},
		{Op: "insert", Table: "A", UUIDName: "n2", UUID: c15N2, Row: rm.Row{"name": str("second"), "opt": rm.SetOf(n("n1")), "msv": rm.MapOf(rm.S("first"), n("n1"))}}}})
	// conflicting claims
	out = append(out, c15Txn{name: "same name, two explicit uuids", mustRe: true, ops: []rm.Op{
		{Op: "insert", Table: "A", UUIDName: "n1", UUID: c15N1, Row: rm.Row{"name": str("a")}},
		{Op: "insert", Table: "A", UUIDName: "n1", UUID: c15N2, Row: rm.Row{"name": str("b")}}}})
	out = append(out, c15Txn{name: "same name, explicit then generated", mustRe: false, ops: []rm.Op{
		{Op: "insert", Table: "A", UUIDName: "n1", UUID: c15N1, Row: rm.Row{"name": str("a")}},
		opUpdate("A", c15E1, rm.Row{"one": rm.SetOf(n("n1"))})}})
	return out
}

func runC15(r *ev.Run) {
	level := 0
	if r.Tier == "thorough" {
		level = 1
	}
	r.SetDeadline(20 * 60 * 1e9)
	r.Set("rule", "case = transaction with one or two named inserts (with and without explicit UUID) and a use of the name in one position (row value of every column kind, where on _uuid / uuid column / set, every mutation shape, wait), placed before or after the defining insert, plus the same text as string data, self and mutual references, conflicting claims; executed on the real server and compared with the reference model run with the UUIDs the server reported; non-trivial = the name is used in at least one UUID-typed position")
	dbs := schemas.MustBuild(c15Schema, nil)
	var txns []c15Txn
	for i, nm := range c15Names {
		for _, t := range c15Txns(level) {
			if i > 0 {
				t.name += fmt.Sprintf(" names=%s,%s", nm[0], nm[1])
				t.ops = c15Rename(t.ops, nm[0], nm[1])
			}
			txns = append(txns, t)
		}
	}
	str := func(s string) rm.Value { return rm.SetOf(rm.S(s)) }
	load := []rm.Op{opInsert("A", c15E1, rm.Row{"name": str("e1")}), opInsert("A", c15E2, rm.Row{"name": str("e2")})}
	par.For(len(txns), r.Expired, func(ti int) {
		t := txns[ti]
		r.Add("evaluations", 1)
		s := sys.New(dbs)
		if res, err := s.TransactRef(load); err != nil || len(res) != 2 {
			panic(fmt.Sprint("load failed", res, err))
		}
		pre := s.State()
		class := strings.Fields(t.name)[0]
		cse := map[string]interface{}{"transaction": t.name}
		wireOps := make([]ovsdb.Operation, len(t.ops))
		for i, op := range t.ops {
			wireOps[i] = sys.ToOvsOp(s.Ref, op)
		}
		cse["ops"] = wireOps
		res, err := s.Transact(wireOps)
		if f, ok := err.(*sys.ImplFailure); ok {
			r.Violation("c15.panic."+class, fmt.Sprintf("%s: %v", t.name, f), cse)
			return
		}
		ok := err == nil && len(res) == len(t.ops)
		for _, x := range res {
			if x.Error != "" {
				ok = false
			}
		}
		cse["results"] = res
		if t.mustRe {
			if ok {
				r.Violation("c15.conflict-accepted", fmt.Sprintf("%s: accepted", t.name), cse)
			}
			r.Distinct("nontrivial", t.name)
			return
		}
		if !ok {
			r.Add("impl_rejects", 1)
			r.Distinct("impl_reject_classes", class)
			// a rejection is a violation only if the reference accepts and the rejection comes from name handling
			ops := fillUUIDs(t.ops, nil)
			if m := pre.Transact(ops); m.Accepted() {
				r.Violation("c15.rejected."+class, fmt.Sprintf("%s: rejected (%s) although every name is defined in the transaction", t.name, ev.J(res)), cse)
			}
			return
		}
		// UUID reported for each insert = key the row is stored under
		post := s.State()
		ops := fillUUIDs(t.ops, res)
		for i, op := range ops {
			if op.Op == "insert" {
				if res[i].UUID.GoUUID != op.UUID || !ovsdb.IsValidUUID(op.UUID) {
					r.Violation("c15.insert-uuid."+class, fmt.Sprintf("%s: insert %d reports uuid %q", t.name, i, res[i].UUID.GoUUID), cse)
				}
				deleted := false
				for _, o2 := range ops[i+1:] {
					if o2.Op == "delete" {
						deleted = true
					}
				}
				if _, stored := post.T[op.Table][op.UUID]; !stored && !deleted {
					r.Violation("c15.insert-not-stored."+class, fmt.Sprintf("%s: insert %d reports uuid %s but no row is stored under it", t.name, i, op.UUID), cse)
				}
			}
		}
		m := pre.Transact(ops)
		if !m.Accepted() {
			r.Violation("c15.accepted-but-reference-rejects."+class, fmt.Sprintf("%s: accepted, reference rejects: %s", t.name, m.Note), cse)
			return
		}
		if post.Dump() != m.New.Dump() {
			cse["stored"] = post.Dump()
			cse["expected"] = m.New.Dump()
			r.Violation("c15.resolution."+class, fmt.Sprintf("%s: stored rows differ from the rows with every name replaced by the inserted row's UUID:\nstored:\n%s\nexpected:\n%s", t.name, post.Dump(), m.New.Dump()), cse)
		}
		for i, op := range ops {
			if k, msg := c03CmpResult(s, op, res[i], m.Results[i]); k != "" {
				r.Violation("c15.result."+k+"."+class, fmt.Sprintf("%s: operation %d: %s", t.name, i, msg), cse)
			}
		}
		r.Distinct("nontrivial", t.name)
		if ti%17 == 0 {
			r.Sample(map[string]interface{}{"transaction": t.name, "ops": wireOps, "stored": post.Dump()})
		}
	})
	// through the model API: a model whose _uuid field holds a name produces uuid-name
	for _, nm := range c15Names {
		name := nm[0]
		l := logr.Discard()
		tc, err := cache.NewTableCache(dbs.DBModel(), nil, &l)
		if err != nil {
			panic(err)
		}
		api := client.VerifNewAPI(tc)
		a := dbs.NewModel("A")
		schemas.Set(a, "_uuid", name)
		schemas.Set(a, "name", "via-create")
		b := dbs.NewModel("B")
		schemas.Set(b, "_uuid", "b1")
		schemas.Set(b, "peer", []string{name})
		schemas.Set(b, "owner", map[string]string{name: "me"})
		ops, err := api.Create(a, b)
		r.Add("evaluations", 1)
		if err != nil {
			r.Violation("c15.api.create-error", fmt.Sprintf("name %q: %v", name, err), nil)
			continue
		}
		s := sys.New(dbs)
		res, terr := s.Transact(ops)
		ok := terr == nil && len(res) == 2 && res[0].Error == "" && res[1].Error == ""
		if !ok {
			r.Violation("c15.api.rejected", fmt.Sprintf("Create(A{_uuid:%[1]s}, B{peer:[%[1]s], owner:{%[1]s:me}}) rejected: %[2]s %[3]v", name, ev.J(res), terr), map[string]interface{}{"ops": ops})
			continue
		}
		post := s.State()
		au := res[0].UUID.GoUUID
		bu := res[1].UUID.GoUUID
		brow := post.T["B"][bu]
		if post.T["A"][au] == nil || brow == nil || !brow["peer"].Equal(rm.SetOf(rm.U(au))) || !brow["owner"].Equal(rm.MapOf(rm.U(au), rm.S("me"))) {
			r.Violation("c15.api.resolution", fmt.Sprintf("Create with models named %q: stored %s", name, post.Dump()), map[string]interface{}{"ops": ops})
		}
		_ = context.Background
	}
	r.Set("transactions", len(txns))
	r.Set("distinct_nontrivial", r.DistinctCount("nontrivial"))
	r.Set("impl_reject_class_list", r.DistinctKeys("impl_reject_classes"))
}

// fillUUIDs gives every insert the UUID the implementation reported (or a placeholder when results are missing).
func fillUUIDs(ops []rm.Op, res []ovsdb.OperationResult) []rm.Op {
	out := make([]rm.Op, len(ops))
	byName := map[string]string{}
	for i, op := range ops {
		out[i] = op
		if op.Op == "insert" && op.UUID == "" {
			u := ""
			if res != nil && i < len(res) {
				u = res[i].UUID.GoUUID
			}
			if u == "" {
				u = uu("0", 100+i)
			}
			if prev, ok := byName[op.UUIDName]; ok && op.UUIDName != "" {
				u = prev
			}
			out[i].UUID = u
		}
		if op.Op == "insert" && op.UUIDName != "" {
			byName[op.UUIDName] = out[i].UUID
		}
	}
	return out
}

// c15Rename replaces the names n1 / n2 (as uuid atoms, as string data and as uuid-name) by another pair of names.
func c15Rename(ops []rm.Op, a, b string) []rm.Op {
	ren := func(x string) string {
		switch x {
		case "n1":
			return a
		case "n2":
			return b
		}
		return x
	}
	atom := func(x rm.Atom) rm.Atom {
		if x.K == 'u' || x.K == 's' {
			x.S = ren(x.S)
		}
		return x
	}
	val := func(v rm.Value) rm.Value {
		if v.IsMap {
			kv := []rm.Atom{}
			for k, x := range v.Map {
				kv = append(kv, atom(k), atom(x))
			}
			return rm.MapOf(kv...)
		}
		var as []rm.Atom
		for _, x := range v.Set {
			as = append(as, atom(x))
		}
		return rm.SetOf(as...)
	}
	row := func(r rm.Row) rm.Row {
		if r == nil {
			return nil
		}
		o := rm.Row{}
		for c, v := range r {
			o[c] = val(v)
		}
		return o
	}
	out := make([]rm.Op, len(ops))
	for i, op := range ops {
		o := op
		o.UUIDName = ren(op.UUIDName)
		o.Row = row(op.Row)
		o.Where = nil
		for _, c := range op.Where {
			o.Where = append(o.Where, rm.Cond{Col: c.Col, Fn: c.Fn, Val: val(c.Val)})
		}
		o.Muts = nil
		for _, m := range op.Muts {
			o.Muts = append(o.Muts, rm.Mut{Col: m.Col, Mutator: m.Mutator, Val: val(m.Val)})
		}
		o.Rows = nil
		for _, r := range op.Rows {
			o.Rows = append(o.Rows, row(r))
		}
		out[i] = o
	}
	return out
}

// c15Names: pairs of names; the later pairs differ only in ways a normalisation could erase (letter case, characters
// outside [A-Za-z0-9_], a leading digit)
var c15Names = [][2]string{{"n1", "n2"}, {"Row_A", "row_a"}, {"br-int", "br_int"}, {"0x", "_0x"}}
