// Package checks holds one file (or more) per property.
package checks

import "verif/mc/ev"

// Func runs a check; tier is "quick" or "thorough".
type Func func(r *ev.Run)

type Entry struct {
	Level string
	Run   Func
}

var Registry = map[string]Entry{}

func register(id, level string, f Func) { Registry[id] = Entry{level, f} }
