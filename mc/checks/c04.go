package checks

// C04 — referential integrity holds after every commit.

import (
	"fmt"
	"github.com/ovn-org/libovsdb/ovsdb"
	"regexp"
	"sort"
	"strings"

	"verif/mc/dbx"
	"verif/mc/ev"
	rm "verif/mc/refmodel"
	"verif/mc/sys"
)

func init() { register("C04", "model_checking", runC04) }

var idRe = regexp.MustCompile(`\b[0-9a-fpqrw][0-9]\b`)

// template of a transaction name: ids wildcarded
func templ(name string) string { return idRe.ReplaceAllString(name, "*") }

// recomputeRefs derives the reference index from stored rows only (same format as sys.Refs).
func recomputeRefs(d *rm.DB) string {
	type key struct{ spec, to string }
	m := map[key]map[string]bool{}
	addRef := func(ft, fc string, val bool, tt, to, from string) {
		k := key{fmt.Sprintf("%s.%s(v=%v)->%s", ft, fc, val, tt), to}
		if m[k] == nil {
			m[k] = map[string]bool{}
		}
		m[k][from] = true
	}
	for tn, t := range d.S.Tables {
		for _, c := range t.Cols {
			for u, r := range d.T[tn] {
				v := r[c.Name]
				if c.IsMap {
					for k, x := range v.Map {
						if c.KeyRef != "" {
							addRef(tn, c.Name, false, c.KeyRef, k.S, u)
						}
						if c.ValRef != "" {
							addRef(tn, c.Name, true, c.ValRef, x.S, u)
						}
					}
				} else if c.KeyRef != "" {
					for _, a := range v.Set {
						addRef(tn, c.Name, false, c.KeyRef, a.S, u)
					}
				}
			}
		}
	}
	var out []string
	for k, from := range m {
		// only references to stored rows are reported by GetReferences(row)
		tt := k.spec[strings.LastIndex(k.spec, "->")+2:]
		if d.T[tt][k.to] == nil {
			continue
		}
		var f []string
		for x := range from {
			f = append(f, x[len(x)-4:])
		}
		sort.Strings(f)
		out = append(out, fmt.Sprintf("%s/%s from %s", k.spec, k.to[len(k.to)-4:], strings.Join(f, ",")))
	}
	sort.Strings(out)
	return strings.Join(out, "\n")
}

// loadTxn is one transaction inserting exactly the rows of d with explicit UUIDs.
func loadTxn(d *rm.DB) []rm.Op {
	var ops []rm.Op
	for _, tn := range d.S.TableNames() {
		var us []string
		for u := range d.T[tn] {
			us = append(us, u)
		}
		sort.Strings(us)
		for _, u := range us {
			ops = append(ops, rm.Op{Op: "insert", Table: tn, UUID: u, Row: d.T[tn][u].Clone()})
		}
	}
	return ops
}

func resSummary(res interface{}) string { return ev.J(res) }

type dbCase struct {
	Schema  string      `json:"schema"`
	History []string    `json:"history"`
	Txn     string      `json:"transaction"`
	Ops     interface{} `json:"operations"`
	Pre     string      `json:"pre_state"`
	Post    string      `json:"post_state"`
	Results string      `json:"results"`
	Msg     string      `json:"msg"`
	Extra   string      `json:"extra,omitempty"`
}

func mkCase(schema string, e *dbx.Edge, msg, extra string) dbCase {
	var ops []interface{}
	for _, op := range e.Txn.Ops {
		ops = append(ops, sys.ToOvsOp(e.Sys.Ref, op))
	}
	return dbCase{schema, e.HistName, e.Txn.Name, ops, e.Pre.Dump(), e.Post.Dump(), resSummary(e.Res), msg, extra}
}

func runC04(r *ev.Run) {
	level, depth := 0, 3
	if r.Tier == "thorough" {
		level, depth = 1, 4
		r.SetDeadline(40 * 60 * 1e9)
	} else {
		r.SetDeadline(240 * 1e9)
	}
	r.Set("rule", "state = history of committed transactions replayed on a fresh real server, deduplicated on rows + reference index; transition = one transaction of the S-ref alphabet; non-trivial = committed transaction in which the engine deleted a row (garbage collection) or rewrote a column (weak pruning) beyond what the operations asked for")
	r.Assume("self references and reference cycles among non-root rows count as references (as the property is written)")
	r.Assume("operations never under-fill a column themselves (libovsdb does not implement min/max on user input; outside C04)")
	for _, allRoot := range []bool{false, true} {
		dbs := srefDB(allRoot)
		sname := "S-ref"
		if allRoot {
			sname = "S-ref(all-root)"
			if r.Tier != "thorough" && depth > 1 {
				// the all-root variant has no garbage collection: one level less in quick
			}
		}
		alpha := srefAlphabet(level)
		r.Set("alphabet_size", len(alpha))
		d := depth
		if allRoot {
			d = depth - 1
		}
		cfg := dbx.Config{DBS: dbs, Alphabet: alpha, Depth: d}
		if r.Tier != "thorough" {
			// quick: the later additions to the alphabet are tried from every state of depth <= 2 (not from the deepest level),
			// and the states they lead to are expanded when reached within two steps
			cfg.LateDepth = 2
		}
		cfg.OnEdge = func(e *dbx.Edge) {
			model := e.Pre.Transact(e.Txn.Ops)
			tp := templ(e.Txn.Name)
			historyIndependence := func(e *dbx.Edge) {
				// (f) history independence: a fresh database loaded with exactly the pre rows answers alike
				if len(e.Hist) > 0 && (r.Tier == "thorough" || len(e.Hist) <= 2) { // quick: from the states of depth <= 2 (the deepest level is the bulk of the edges)
					s2 := sys.New(dbs)
					lres, lerr := s2.TransactRef(loadTxn(e.Pre))
					ok := lerr == nil
					for _, x := range lres {
						if x.Error != "" {
							ok = false
						}
					}
					if !ok {
						r.Violation("c04.load-rejected."+tp, fmt.Sprintf("[%s] the rows stored after %v are rejected when inserted into a fresh database: %s", sname, e.HistName, ev.J(lres)), mkCase(sname, e, "load rejected", ""))
						return
					}
					if s2.State().Dump() != e.Pre.Dump() {
						r.Violation("c04.load-differs."+tp, fmt.Sprintf("[%s] loading the rows stored after %v gives different rows", sname, e.HistName), mkCase(sname, e, "load differs", s2.State().Dump()))
						return
					}
					res2, err2 := s2.TransactRef(e.Txn.Ops)
					post2 := s2.State()
					// results compared canonically: the rows of a select come in no particular order
					canonRes := func(res []ovsdb.OperationResult) string { return s2.CanonResults(sys.OpTables(e.Txn.Ops), res) }
					if (err2 == nil) != (e.RPCErr == nil) || canonRes(res2) != canonRes(e.Res) || post2.Dump() != e.Post.Dump() {
						r.Violation("c04.history-dependence."+tp,
							fmt.Sprintf("[%s] %s: same rows reached by history vs loaded fresh answer differently: %s vs %s", sname, histStr(e), errShape(e.Res), errShape(res2)),
							mkCase(sname, e, "history dependence", "fresh-load results: "+ev.J(res2)+"\nfresh-load post state:\n"+post2.Dump()))
					}
					r.Add("history_independence_checks", 1)
				}
			}
			r.Distinct("outcomes", fmt.Sprintf("%v/%v", e.Accepted, model.Accepted()))
			if e.Depth == 0 && e.Hist == nil && len(e.Txn.Ops) > 1 {
				r.Sample(map[string]interface{}{"schema": sname, "history": e.HistName, "txn": e.Txn.Name, "accepted": e.Accepted})
			}
			if e.Panic != "" {
				r.Violation("c04.panic."+e.PanicAt, fmt.Sprintf("[%s] %s: implementation panicked: %s at %s", sname, histStr(e), e.Panic, e.PanicAt), mkCase(sname, e, "panic: "+e.Panic, e.PanicAt))
				return
			}
			if !e.Accepted {
				// rejected: C02 checks that nothing changed. Here: was the rejection demanded?
				if model.Accepted() {
					r.Add("impl_rejects_model_accepts", 1)
					r.Distinct("impl_rejects_model_accepts_kinds", tp)
					// tolerated: deleting one row of a strong cycle of non-root rows ("del N3 *"): the reference lets garbage collection
					// remove the other row, now unreferenced, before judging the dangling reference; libovsdb judges first and refuses
					// (stricter, nothing is committed). Any other transaction the reference commits must be committed
					if tp != "del N3 *" {
						r.Violation("c04.rejected-but-reference-commits."+tp, fmt.Sprintf("[%s] %s: refused (%s) although the reference model commits it", sname, histStr(e), ev.J(e.Res)), mkCase(sname, e, "refused", ""))
					}
				}
				historyIndependence(e)
				return
			}
			// (a)(b)(c) from stored rows only
			if m := e.Post.Invariants(); m != "" {
				kind := strings.Fields(m)[0] + "-" + strings.Fields(m)[1]
				r.Violation("c04.inv."+kind+"."+tp, fmt.Sprintf("[%s] after %s: %s", sname, histStr(e), m), mkCase(sname, e, m, ""))
			}
			// (e) the model rejects at commit time (dangling strong reference, under-filled weak
			// column) but the implementation committed
			if model.FailedOp >= 0 {
				// an operation-level rejection by the model (e.g. duplicate uuid) is C02/C03 territory
				r.Add("model_rejects_operation_impl_accepts", 1)
			} else if !model.Accepted() {
				r.Violation("c04.accepted-but-must-reject."+strings.ReplaceAll(model.CommitErr, " ", "-")+"."+tp,
					fmt.Sprintf("[%s] %s committed although the reference model rejects it (%s %s)", sname, histStr(e), model.CommitErr, model.Note), mkCase(sname, e, model.Note, ""))
			} else {
				// (g) stored rows equal the unique commit fixpoint
				if e.Post.Dump() != model.New.Dump() {
					r.Violation("c04.fixpoint."+tp, fmt.Sprintf("[%s] %s: stored rows differ from the commit fixpoint", sname, histStr(e)),
						mkCase(sname, e, "rows differ from reference fixpoint", model.New.Dump()))
				}
				if model.New.Dump() != refApplyOnly(e.Pre, e.Txn.Ops) {
					r.Add("commits_with_gc_or_pruning", 1)
					r.Distinct("nontrivial", e.Pre.Dump()+"|"+e.Txn.Name)
				}
			}
			// (d) reference index vs rows: noted
			if rc := recomputeRefs(e.Post); rc != e.PostRefs {
				r.Add("noted_reference_index_mismatch", 1)
				r.Distinct("noted_reference_index_mismatch_kinds", tp)
				if r.DistinctCount("noted_reference_index_mismatch_kinds") <= 3 {
					r.Note(fmt.Sprintf("reference index differs from rows after %s:\nindex:\n%s\nfrom rows:\n%s", histStr(e), e.PostRefs, rc))
				}
			}
			historyIndependence(e)
		}
		dbx.Explore(r, cfg)
	}
	r.Set("impl_rejects_model_accepts_kind_list", r.DistinctKeys("impl_rejects_model_accepts_kinds"))
	r.Set("traces_validated_against_impl", r.Get("transitions"))
	r.Set("distinct_nontrivial", r.DistinctCount("nontrivial"))
	r.Set("evaluations", r.Get("transitions"))
	r.Set("bound", fmt.Sprintf("alphabet level %d, all transactions from every state of depth <= %d (S-ref) / %d (all-root variant)", level, depth, depth-1))
}

// refApplyOnly: the operations applied without any commit processing (reference-free, all-root copy of the schema).
func refApplyOnly(pre *rm.DB, ops []rm.Op) string {
	p := &rm.DB{S: stripSchema(pre.S), T: pre.Clone().T}
	out := p.Transact(ops)
	return (&rm.DB{S: pre.S, T: out.New.T}).Dump()
}

var strippedCache = map[*rm.Schema]*rm.Schema{}
var strippedMu = make(chan struct{}, 1)

func stripSchema(s *rm.Schema) *rm.Schema {
	strippedMu <- struct{}{}
	defer func() { <-strippedMu }()
	if p, ok := strippedCache[s]; ok {
		return p
	}
	p := &rm.Schema{Name: s.Name, Tables: map[string]*rm.Table{}}
	for tn, t := range s.Tables {
		nt := &rm.Table{Name: tn, IsRoot: true, Cols: map[string]*rm.Col{}}
		for cn, c := range t.Cols {
			cc := *c
			cc.KeyRef, cc.ValRef = "", ""
			nt.Cols[cn] = &cc
		}
		p.Tables[tn] = nt
	}
	strippedCache[s] = p
	return p
}

// errShape summarises results: per operation "ok"/error class.
func errShape(res interface{}) string {
	b := ev.J(res)
	return errRe.ReplaceAllString(b, `"details":"..."`)
}

var errRe = regexp.MustCompile(`"details":"(?:[^"\\]|\\.)*"`)
