package checks

// C19 — no input can crash the library (bounded-exhaustive shapes, not fuzzing).

import (
	"encoding/json"
	"fmt"
	"reflect"
	"runtime/debug"
	"sort"
	"strings"

	"github.com/ovn-org/libovsdb/ovsdb"

	"verif/mc/ev"
	"verif/mc/par"
	rm "verif/mc/refmodel"
	"verif/mc/schemas"
	"verif/mc/sys"
)

func init() { register("C19", "exploration", runC19) }

var c19Atoms = []string{`null`, `true`, `0`, `1.5`, `""`, `"a"`, `"set"`, `"map"`, `"uuid"`, `"named-uuid"`, `"11111111-2222-3333-4444-555555555555"`}

func arraysOf(el []string, maxLen int) []string {
	out := []string{"[]"}
	cur := []string{""}
	for l := 1; l <= maxLen; l++ {
		var next []string
		for _, p := range cur {
			for _, e := range el {
				if p == "" {
					next = append(next, e)
				} else {
					next = append(next, p+","+e)
				}
			}
		}
		for _, n := range next {
			out = append(out, "["+n+"]")
		}
		cur = next
	}
	return out
}

// c19Docs enumerates JSON documents of bounded shape.
func c19Docs(level int) []string {
	d0 := c19Atoms
	k1, k2 := 2, 2
	if level > 0 {
		k1 = 3
	}
	d1 := append(append([]string{}, d0...), arraysOf(d0, k1)...)
	small := append(append([]string{}, d0...), arraysOf(d0, 2)...)
	if level == 0 {
		// quick: second-level arrays over a reduced first level
		small = append(append([]string{}, d0...), arraysOf(d0[:6], 2)...)
		small = append(small, `["uuid","11111111-2222-3333-4444-555555555555"]`, `["named-uuid","a"]`, `["set",[]]`, `["map",[]]`)
	}
	d2 := append(append([]string{}, d1...), arraysOf(small, k2)...)
	// tagged values whose payload is any document of the previous level
	var d3 []string
	for _, tag := range []string{`"set"`, `"map"`, `"uuid"`, `"named-uuid"`} {
		for _, x := range d2 {
			d3 = append(d3, "["+tag+","+x+"]")
		}
	}
	// objects
	objs := []string{`{}`, `{"a":0}`, `{"a":[]}`, `{"a":{}}`, `{"a":null}`, `{"a":["set",[0]]}`, `{"a":["map",[[0]]]}`, `{"a":["uuid"]}`, `{"":""}`, `{"a":{"b":{"c":[]}}}`}
	all := append(append(d2, d3...), objs...)
	seen := map[string]bool{}
	var out []string
	for _, d := range all {
		if !seen[d] {
			seen[d] = true
			out = append(out, d)
		}
	}
	return out
}

type decoder struct {
	name string
	new  func() interface{}
	wrap []string // templates with %s where the document goes ("%s" = the document itself)
}

func c19Decoders() []decoder {
	return []decoder{
		{"OvsSet", func() interface{} { return new(ovsdb.OvsSet) }, []string{"%s"}},
		{"OvsMap", func() interface{} { return new(ovsdb.OvsMap) }, []string{"%s"}},
		{"UUID", func() interface{} { return new(ovsdb.UUID) }, []string{"%s"}},
		{"Row", func() interface{} { return new(ovsdb.Row) }, []string{"%s", `{"c":%s}`}},
		{"Condition", func() interface{} { return new(ovsdb.Condition) }, []string{"%s", `["c","==",%s]`, `["c",%s,0]`, `[%s,"==",0]`}},
		{"Mutation", func() interface{} { return new(ovsdb.Mutation) }, []string{"%s", `["c","insert",%s]`, `["c",%s,0]`, `[%s,"+=",0]`}},
		{"Operation", func() interface{} { return new(ovsdb.Operation) }, []string{"%s", `{"op":"insert","table":"T","row":{"c":%s}}`, `{"op":"update","table":"T","where":%s,"row":{}}`,
			`{"op":"mutate","table":"T","where":[],"mutations":%s}`, `{"op":"select","table":"T","where":[%s]}`, `{"op":"wait","table":"T","where":[],"rows":%s,"until":"==","columns":[],"timeout":0}`,
			`{"op":%s}`, `{"op":"insert","table":%s}`, `{"op":"insert","table":"T","row":%s}`, `{"op":"insert","table":"T","uuid-name":%s}`, `{"op":"select","table":"T","where":[],"columns":%s}`,
			`{"op":"wait","timeout":%s}`, `{"op":"commit","durable":%s}`, `{"op":"comment","comment":%s}`, `{"op":"assert","lock":%s}`}},
		{"TableUpdates", func() interface{} { return new(ovsdb.TableUpdates) }, []string{"%s", `{"T":%s}`, `{"T":{"u":%s}}`, `{"T":{"u":{"new":%s}}}`, `{"T":{"u":{"old":{"c":%s}}}}`}},
		{"TableUpdates2", func() interface{} { return new(ovsdb.TableUpdates2) }, []string{"%s", `{"T":%s}`, `{"T":{"u":%s}}`, `{"T":{"u":{"modify":%s}}}`, `{"T":{"u":{"insert":{"c":%s}}}}`}},
		{"MonitorCondSinceReply", func() interface{} { return new(ovsdb.MonitorCondSinceReply) }, []string{"%s", `[true,"x",%s]`, `[%s,"x",{}]`, `[true,%s,{}]`}},
		{"MonitorRequest", func() interface{} { return new(ovsdb.MonitorRequest) }, []string{"%s", `{"columns":%s}`, `{"where":%s}`, `{"select":%s}`, `{"select":{"initial":%s}}`}},
		{"OperationResult", func() interface{} { return new(ovsdb.OperationResult) }, []string{"%s", `{"uuid":%s}`, `{"rows":%s}`, `{"rows":[%s]}`, `{"count":%s}`, `{"error":%s}`}},
		{"ColumnSchema", func() interface{} { return new(ovsdb.ColumnSchema) }, []string{"%s", `{"type":%s}`, `{"type":{"key":%s}}`, `{"type":{"key":"string","value":%s}}`, `{"type":{"key":{"type":"string","enum":%s}}}`,
			`{"type":{"key":"string","min":%s}}`, `{"type":{"key":"string","max":%s}}`, `{"type":"string","mutable":%s}`, `{"type":{"key":{"type":%s}}}`, `{"type":{"key":{"type":"uuid","refTable":%s}}}`}},
		{"DatabaseSchema", func() interface{} { return new(ovsdb.DatabaseSchema) }, []string{"%s", `{"name":"x","version":"1","tables":%s}`, `{"name":"x","tables":{"T":%s}}`, `{"name":"x","tables":{"T":{"columns":%s}}}`,
			`{"name":"x","tables":{"T":{"columns":{"c":%s}}}}`, `{"name":"x","tables":{"T":{"columns":{},"indexes":%s}}}`, `{"name":%s}`}},
		{"MonitorSelect", func() interface{} { return new(ovsdb.MonitorSelect) }, []string{"%s"}},
	}
}

func panicClass(p interface{}) string {
	s := fmt.Sprint(p)
	switch {
	case strings.Contains(s, "index out of range"):
		return "index-out-of-range"
	case strings.Contains(s, "interface conversion"):
		return "interface-conversion"
	case strings.Contains(s, "nil pointer"):
		return "nil-pointer"
	case strings.Contains(s, "divide by zero"):
		return "divide-by-zero"
	case strings.Contains(s, "unhashable"):
		return "unhashable-key"
	}
	if len(s) > 40 {
		s = s[:40]
	}
	return s
}

// ---- transactions ----

const c19Schema = `{"name":"CR","version":"1.0.0","tables":{"T":{"columns":{
 "i":{"type":"integer"},"r":{"type":"real"},"s":{"type":"string"},"b":{"type":"boolean"},
 "oi":{"type":{"key":{"type":"integer"},"min":0,"max":1}},
 "si":{"type":{"key":{"type":"integer"},"min":0,"max":"unlimited"}},
 "ss":{"type":{"key":{"type":"string"},"min":0,"max":"unlimited"}},
 "m":{"type":{"key":{"type":"string"},"value":{"type":"string"},"min":0,"max":"unlimited"}},
 "mi":{"type":{"key":{"type":"string"},"value":{"type":"integer"},"min":0,"max":"unlimited"}},
 "ref":{"type":{"key":{"type":"uuid","refTable":"U","refType":"strong"},"min":0,"max":"unlimited"}},
 "e":{"type":{"key":{"type":"string","enum":["set",["x","y"]]}}}},
 "indexes":[["s"]],"isRoot":true},
 "U":{"columns":{"n":{"type":"string"}}}}}`

// valid operations (as JSON text) that the corruptions start from
func c19Catalogue() []string {
	t1 := uu("7", 1)
	return []string{
		`{"op":"insert","table":"T","row":{"i":1,"s":"new","ss":["set",["a","b"]],"m":["map",[["k","v"]]]},"uuid-name":"n1"}`,
		`{"op":"insert","table":"T","row":{"s":"x2","r":1.5,"b":true,"oi":3,"si":["set",[1,2]],"mi":["map",[["k",1]]],"e":"x"},"uuid":"70000000-0000-0000-0000-000000000009"}`,
		`{"op":"insert","table":"U","row":{"n":"u"},"uuid-name":"u1"}`,
		`{"op":"select","table":"T","where":[["i","==",1]],"columns":["s","i"]}`,
		`{"op":"select","table":"T","where":[["ss","includes",["set",["a"]]],["_uuid","==",["uuid","` + t1 + `"]]]}`,
		`{"op":"select","table":"T","where":[["m","includes",["map",[["k","v"]]]],["r","<",2.5]]}`,
		`{"op":"update","table":"T","where":[["_uuid","==",["uuid","` + t1 + `"]]],"row":{"i":5,"ss":["set",["c"]],"oi":["set",[]]}}`,
		`{"op":"update","table":"T","where":[["s","!=","nope"]],"row":{"m":["map",[["a","b"],["c","d"]]],"e":"y"}}`,
		`{"op":"mutate","table":"T","where":[],"mutations":[["i","+=",1],["r","*=",2.0]]}`,
		`{"op":"mutate","table":"T","where":[],"mutations":[["i","/=",2],["i","%=",3],["r","/=",2.0]]}`,
		`{"op":"mutate","table":"T","where":[],"mutations":[["si","+=",1],["si","/=",1],["si","%=",5]]}`,
		`{"op":"mutate","table":"T","where":[],"mutations":[["ss","insert",["set",["z"]]],["ss","delete","a"],["m","insert",["map",[["k2","v2"]]]],["m","delete",["set",["k"]]],["mi","delete",["map",[["k",1]]]]]}`,
		`{"op":"delete","table":"T","where":[["i",">=",0],["b","==",false]]}`,
		`{"op":"wait","table":"T","where":[["_uuid","==",["uuid","` + t1 + `"]]],"columns":["i"],"until":"==","rows":[{"i":7}],"timeout":0}`,
		`{"op":"wait","table":"T","where":[],"columns":["s","ss"],"until":"!=","rows":[{"s":"q","ss":["set",["a"]]}],"timeout":0}`,
		`{"op":"commit","durable":false}`,
		`{"op":"abort"}`,
		`{"op":"comment","comment":"hello"}`,
		`{"op":"assert","lock":"l"}`,
		`{"op":"select","table":"T","where":[["s","<","zzz"]]}`,
		`{"op":"delete","table":"T","where":[["ss",">",["set",["a"]]]]}`,
		`{"op":"update","table":"T","where":[["m","<=",["map",[]]],["b",">=",true]],"row":{"i":2}}`,
		`{"op":"mutate","table":"T","where":[["oi","<",1]],"mutations":[["i","+=",1]]}`,
		`{"op":"commit","table":"T","durable":true}`,
		`{"op":"abort","table":"T"}`,
		`{"op":"comment","table":"T","comment":"hello"}`,
		`{"op":"assert","table":"T","lock":"l"}`,
	}
}

// shapes used to replace value nodes
var c19Shapes = []string{`null`, `0`, `-1`, `1.5`, `9e99`, `true`, `""`, `"x"`, `[]`, `[[]]`, `{}`, `[0]`, `["set"]`, `["set",0]`, `["set",[[]]]`, `["set",[["uuid"]]]`, `["map"]`, `["map",0]`, `["map",[0]]`, `["map",[[]]]`, `["map",[[0]]]`,
	`["map",[["k"]]]`, `["uuid"]`, `["uuid",0]`, `["named-uuid"]`, `["uuid","not-a-uuid"]`, `["set",["a",1]]`, `["map",[["k",["set",[]]]]]`, `[["k","v"]]`, `["set",[1,2]]`, `["map",[[1,"v"]]]`, `"00000000-0000-0000-0000-000000000000"`}

// corruptions of one JSON value: drop each object member, replace each node by each shape
func corrupt(v interface{}, shapes []interface{}, emit func(interface{})) {
	var walk func(node interface{}, rebuild func(interface{}) interface{})
	walk = func(node interface{}, rebuild func(interface{}) interface{}) {
		for _, s := range shapes {
			if !reflect.DeepEqual(s, node) {
				emit(rebuild(s))
			}
		}
		// a function, mutator or operation name is also swapped for every other one (ill-typed but well-formed)
		if str, ok := node.(string); ok {
			for _, family := range [][]string{condFns, mutators, {"insert", "select", "update", "mutate", "delete", "wait", "commit", "abort", "comment", "assert"}} {
				member := false
				for _, f := range family {
					member = member || f == str
				}
				if member {
					for _, f := range family {
						if f != str {
							emit(rebuild(f))
						}
					}
				}
			}
		}
		switch x := node.(type) {
		case map[string]interface{}:
			keys := make([]string, 0, len(x))
			for k := range x {
				keys = append(keys, k)
			}
			sort.Strings(keys)
			for _, k := range keys {
				k := k
				// drop the member
				c := map[string]interface{}{}
				for k2, v2 := range x {
					if k2 != k {
						c[k2] = v2
					}
				}
				emit(rebuild(c))
				walk(x[k], func(n interface{}) interface{} {
					c := map[string]interface{}{}
					for k2, v2 := range x {
						c[k2] = v2
					}
					c[k] = n
					return rebuild(c)
				})
			}
		case []interface{}:
			for i := range x {
				i := i
				// drop the element
				c := append(append([]interface{}{}, x[:i]...), x[i+1:]...)
				emit(rebuild(c))
				walk(x[i], func(n interface{}) interface{} {
					c := append([]interface{}{}, x...)
					c[i] = n
					return rebuild(c)
				})
			}
		}
	}
	walk(v, func(n interface{}) interface{} { return n })
}

func runC19(r *ev.Run) {
	level := 0
	if r.Tier == "thorough" {
		level = 1
		r.SetDeadline(40 * 60 * 1e9)
	} else {
		r.SetDeadline(200 * 1e9)
	}
	r.Set("rule", "decoders: every JSON document of a bounded shape (atoms of an 11-symbol alphabet, arrays of bounded length nested to depth 3 incl. every tagged [set|map|uuid|named-uuid, X]) fed to every wire decoder directly and inside every member position of its wire type, plus every byte-prefix of valid encodings; transactions: every single structural corruption (drop a member or element, replace any node by any of 32 shapes) of 19 valid operations, alone and after a valid operation, through OvsdbServer.Transact followed by a valid transaction on the same server; non-trivial = input on which the decoder/server returns an error (as opposed to accepting it)")
	r.Assume("the statement quantifies over all byte strings; what is decided here is the bounded-exhaustive shape space above, not a fuzzing campaign")
	r.Assume("a wait without timeout that can never be satisfied blocks by design (RFC 7047 5.2.6); the timeout member of wait operations is never dropped or made non-zero")
	docs := c19Docs(level)
	decs := c19Decoders()
	r.Set("documents", len(docs))
	r.Set("decoders", len(decs))
	type job struct {
		d    decoder
		wrap string
	}
	var jobs []job
	for _, d := range decs {
		for _, w := range d.wrap {
			jobs = append(jobs, job{d, w})
		}
	}
	par.For(len(jobs), r.Expired, func(ji int) {
		j := jobs[ji]
		for di, doc := range docs {
			in := strings.Replace(j.wrap, "%s", doc, 1)
			func() {
				defer func() {
					if p := recover(); p != nil {
						site := sys.PanicSite(string(debug.Stack()))
						r.Violation("c19.decode."+j.d.name+"."+panicClass(p)+"."+site, fmt.Sprintf("decoding %s as %s panics: %v (at %s)", in, j.d.name, p, site), map[string]interface{}{"decoder": j.d.name, "input": in, "panic": fmt.Sprint(p), "at": site})
					}
				}()
				r.Add("evaluations", 1)
				p := j.d.new()
				if err := json.Unmarshal([]byte(in), p); err != nil {
					r.Add("decode_errors", 1)
					if di%50 == 0 {
						r.Distinct("nontrivial", j.d.name+"|"+in)
					}
				} else {
					// a decoded value must also re-encode without panicking
					_, _ = json.Marshal(p)
				}
			}()
		}
	})
	// byte prefixes of valid encodings
	for _, c := range wireCases(0) {
		b, err := json.Marshal(c.val)
		if err != nil || len(b) > 400 {
			continue
		}
		for cut := 0; cut < len(b); cut++ {
			func() {
				defer func() {
					if p := recover(); p != nil {
						site := sys.PanicSite(string(debug.Stack()))
						r.Violation("c19.decode-truncated."+c.class+"."+panicClass(p)+"."+site, fmt.Sprintf("decoding truncated %s panics: %v", b[:cut], p), map[string]interface{}{"input": string(b[:cut])})
					}
				}()
				r.Add("evaluations", 1)
				r.Add("truncations", 1)
				_ = json.Unmarshal(b[:cut], c.newPtr())
			}()
		}
	}
	r.Sample(map[string]interface{}{"decoder": "Condition", "input": strings.Replace(`["c","==",%s]`, "%s", docs[len(docs)/3], 1)})

	// ---- transactions
	dbs := schemas.MustBuild(c19Schema, nil)
	var shapes []interface{}
	for _, s := range c19Shapes {
		var v interface{}
		if err := json.Unmarshal([]byte(s), &v); err != nil {
			panic(s)
		}
		shapes = append(shapes, v)
	}
	type tcase struct {
		name string
		ops  []json.RawMessage
	}
	var tcases []tcase
	valid := json.RawMessage(`{"op":"insert","table":"T","row":{"s":"first","i":1}}`)
	for ci, opText := range c19Catalogue() {
		var op interface{}
		if err := json.Unmarshal([]byte(opText), &op); err != nil {
			panic(opText)
		}
		seen := map[string]bool{}
		corrupt(op, shapes, func(c interface{}) {
			b, _ := json.Marshal(c)
			if seen[string(b)] {
				return
			}
			seen[string(b)] = true
			if m, ok := c.(map[string]interface{}); ok && m["op"] == "wait" {
				if tv, ok := m["timeout"].(float64); !ok || tv != 0 {
					return // see assumptions
				}
			}
			tcases = append(tcases, tcase{fmt.Sprintf("op%d: %s", ci, b), []json.RawMessage{b}})
			if level > 0 || len(seen)%4 == 0 {
				tcases = append(tcases, tcase{fmt.Sprintf("valid + op%d: %s", ci, b), []json.RawMessage{valid, b}})
			}
		})
		tcases = append(tcases, tcase{fmt.Sprintf("op%d (uncorrupted)", ci), []json.RawMessage{json.RawMessage(opText)}})
	}
	// non-object operations and odd params
	for _, s := range c19Shapes {
		tcases = append(tcases, tcase{"operation is " + s, []json.RawMessage{json.RawMessage(s)}})
	}
	r.Set("transactions", len(tcases))
	str := func(s string) rm.Value { return rm.SetOf(rm.S(s)) }
	par.For(len(tcases), r.Expired, func(ti int) {
		tc := tcases[ti]
		r.Add("evaluations", 1)
		r.Add("transaction_cases", 1)
		s := sys.New(dbs)
		if res, err := s.TransactRef([]rm.Op{opInsert("T", uu("7", 1), rm.Row{"s": str("seed"), "i": rm.SetOf(rm.I(7)), "ss": rm.SetOf(rm.S("a")), "m": rm.MapOf(rm.S("k"), rm.S("v")), "mi": rm.MapOf(rm.S("k"), rm.I(1)), "si": rm.SetOf(rm.I(4))})}); err != nil || len(res) != 1 || res[0].Error != "" {
			panic(fmt.Sprint("seed failed", res, err))
		}
		args := append([]json.RawMessage{json.RawMessage(`"CR"`)}, tc.ops...)
		res, err := s.TransactRaw(args)
		cse := map[string]interface{}{"transaction": tc.name, "params": args}
		if f, ok := err.(*sys.ImplFailure); ok {
			kind := "panic"
			if strings.HasPrefix(f.At, "hang") {
				kind = "hang"
			}
			r.Violation("c19.transact."+kind+"."+panicClass(f.Panic)+"."+f.At, fmt.Sprintf("%s: %v", tc.name, f), cse)
			return
		}
		failed := err != nil
		for _, x := range res {
			if x.Error != "" {
				failed = true
			}
		}
		if failed {
			r.Distinct("nontrivial", tc.name)
		}
		// the server keeps serving: echo and a valid transaction
		var echo []interface{}
		if eerr := s.Srv.Echo(nil, []interface{}{"ping"}, &echo); eerr != nil || len(echo) != 1 {
			r.Violation("c19.transact.echo-after", fmt.Sprintf("%s: echo afterwards: %v %v", tc.name, echo, eerr), cse)
		}
		res2, err2 := s.TransactRef([]rm.Op{opInsert("T", uu("7", 5), rm.Row{"s": str("after"), "i": rm.SetOf(rm.I(99))}), {Op: "select", Table: "T"}})
		if f, ok := err2.(*sys.ImplFailure); ok {
			r.Violation("c19.transact.not-serving-after."+f.At, fmt.Sprintf("%s: a valid transaction afterwards: %v", tc.name, f), cse)
			return
		}
		if err2 != nil || len(res2) != 2 || res2[0].Error != "" || res2[1].Error != "" {
			r.Violation("c19.transact.valid-transaction-fails-after", fmt.Sprintf("%s: a valid transaction afterwards fails: %s %v", tc.name, ev.J(res2), err2), cse)
		}
		if ti%997 == 0 {
			r.Sample(map[string]interface{}{"transaction": tc.name, "results": res, "rpc_error": fmt.Sprint(err)})
		}
	})
	r.Set("distinct_nontrivial", r.DistinctCount("nontrivial"))
}
