// Package dbx: explicit-state search over the real in-memory database/server.
// A state is a history of committed transactions replayed on a fresh real
// server; states are deduplicated on the canonical dump of rows + reference index.
package dbx

import (
	"encoding/json"
	"fmt"
	"sync"

	"github.com/cenkalti/rpc2"
	"github.com/ovn-org/libovsdb/ovsdb"

	"verif/mc/canon"
	"verif/mc/ev"
	"verif/mc/par"
	"verif/mc/refmodel"
	"verif/mc/schemas"
	"verif/mc/sys"
)

// Txn is one transaction of an alphabet.
type Txn struct {
	Name  string
	Ops   []refmodel.Op
	Class string
	// Late transactions were added to an alphabet after its first version: where Config.LateDepth is set, they are tried from
	// the states of depth <= LateDepth only, and the states they lead to are expanded when reached within LateDepth steps.
	Late bool
	// Raw, when set, is sent instead of Ops (ill-formed transactions for C02/C19).
	Raw []json.RawMessage
}

// MonSpec describes a monitor attached before the last transaction of a path.
type MonSpec struct {
	Method string
	ID     string
	Req    map[string]*ovsdb.MonitorRequest
}

type MonObs struct {
	Spec    MonSpec
	Initial json.RawMessage
	Err     error
	Notes   []sys.Note
}

// Edge is one explored transition.
type Edge struct {
	Hist     []int
	HistName []string
	Txn      Txn
	Pre      *refmodel.DB
	PreRefs  string
	Res      []ovsdb.OperationResult
	RPCErr   error
	Post     *refmodel.DB
	PostRefs string
	Accepted bool // every operation has a result without error, no extra element
	Mons     []MonObs
	Sys      *sys.Sys // live system in the post state
	Depth    int
	Panic    string // non-empty if the implementation panicked while executing the transaction
	PanicAt  string
}

type Config struct {
	DBS      *schemas.DB
	Alphabet []Txn // transactions that build states
	Probes   []Txn // transactions tried from every state but never expanded
	Depth    int   // number of BFS levels expanded (states up to this depth get all edges)
	Monitors []MonSpec
	OnEdge   func(e *Edge)
	// OnState is called once per distinct state with a live system in that state.
	OnState   func(hist []int, s *sys.Sys, st *refmodel.DB)
	MaxStates int
	LateDepth int // 0: no restriction
}

func accepted(res []ovsdb.OperationResult, nops int, rpcErr error) bool {
	if rpcErr != nil || len(res) != nops {
		return false
	}
	for _, r := range res {
		if r.Error != "" {
			return false
		}
	}
	return true
}

// Replay builds a fresh system and replays a history of alphabet transactions.
func Replay(cfg *Config, hist []int) *sys.Sys {
	s := sys.New(cfg.DBS)
	for _, i := range hist {
		t := cfg.Alphabet[i]
		res, err := s.TransactRef(t.Ops)
		if !accepted(res, len(t.Ops), err) {
			panic(fmt.Sprintf("replay of committed transaction %s failed: %v %v", t.Name, res, err))
		}
	}
	return s
}

// Step executes one more transaction on a fresh replay of hist and returns the edge.
func Step(cfg *Config, hist []int, t Txn) *Edge {
	s := Replay(cfg, hist)
	e := &Edge{Hist: hist, Txn: t, Sys: s, Depth: len(hist)}
	for _, i := range hist {
		e.HistName = append(e.HistName, cfg.Alphabet[i].Name)
	}
	e.Pre = s.State()
	e.PreRefs = s.Refs(e.Pre)
	var clients []*rpc2.Client
	var recs []*sys.Recorder
	for _, m := range cfg.Monitors {
		rec, cl, init, err := s.AddMonitor(m.Method, m.ID, m.Req)
		e.Mons = append(e.Mons, MonObs{Spec: m, Initial: init, Err: err})
		recs = append(recs, rec)
		clients = append(clients, cl)
	}
	if t.Raw != nil {
		e.Res, e.RPCErr = s.TransactRaw(t.Raw)
		e.Accepted = accepted(e.Res, len(t.Raw)-1, e.RPCErr)
	} else {
		e.Res, e.RPCErr = s.TransactRef(t.Ops)
		e.Accepted = accepted(e.Res, len(t.Ops), e.RPCErr)
	}
	if f, ok := e.RPCErr.(*sys.ImplFailure); ok {
		e.Panic, e.PanicAt = f.Panic, f.At
	}
	if e.Panic != "" {
		// the server died holding its transaction lock: the system cannot be used further
		e.Post = e.Pre
		e.PostRefs = e.PreRefs
		return e
	}
	for i, rec := range recs {
		if rec != nil {
			e.Mons[i].Notes = rec.Take()
		}
	}
	for _, cl := range clients {
		if cl != nil {
			cl.Close()
		}
	}
	e.Post = s.State()
	e.PostRefs = s.Refs(e.Post)
	return e
}

// Explore runs the breadth-first search.
func Explore(r *ev.Run, cfg Config) {
	type node struct{ hist []int }
	seen := map[string]bool{}
	var mu sync.Mutex
	frontier := []node{{nil}}
	{
		s := sys.New(cfg.DBS)
		st := s.State()
		seen[canon.Hash(st.Dump()+"#"+s.Refs(st))] = true
		r.Add("states", 1)
	}
	all := append(append([]Txn{}, cfg.Alphabet...), cfg.Probes...)
	for depth := 0; depth <= cfg.Depth && len(frontier) > 0; depth++ {
		var next []node
		r.Add(fmt.Sprintf("frontier_depth_%d", depth), int64(len(frontier)))
		par.For(len(frontier), r.Expired, func(i int) {
			n := frontier[i]
			if cfg.OnState != nil {
				s := Replay(&cfg, n.hist)
				cfg.OnState(n.hist, s, s.State())
			}
			for ti, t := range all {
				if r.Expired() {
					return
				}
				if t.Late && cfg.LateDepth > 0 && depth > cfg.LateDepth {
					continue
				}
				var e *Edge
				func() {
					defer func() {
						if p := recover(); p != nil {
							// the harness could not replay a history it had already executed, or the
							// implementation panicked outside a guarded call: same history, different behaviour
							r.Violation(r.Prop+".replay-diverged", fmt.Sprintf("history %v then %s: %v", n.hist, t.Name, p),
								map[string]interface{}{"history": n.hist, "txn": t.Name, "panic": fmt.Sprint(p)})
							e = nil
						}
					}()
					e = Step(&cfg, n.hist, t)
					r.Add("transitions", 1)
					if cfg.OnEdge != nil {
						cfg.OnEdge(e)
					}
				}()
				if e == nil {
					continue
				}
				if ti < len(cfg.Alphabet) && e.Accepted && depth < cfg.Depth && !(t.Late && cfg.LateDepth > 0 && depth >= cfg.LateDepth) {
					h := canon.Hash(e.Post.Dump() + "#" + e.PostRefs)
					mu.Lock()
					if !seen[h] && (cfg.MaxStates == 0 || len(seen) < cfg.MaxStates) {
						seen[h] = true
						next = append(next, node{append(append([]int{}, n.hist...), ti)})
						r.Add("states", 1)
					} else if !seen[h] {
						r.Exhaustive = false
					}
					mu.Unlock()
				}
			}
		})
		r.Set("max_depth", depth+1)
		frontier = next
	}
}
