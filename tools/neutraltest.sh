#!/bin/bash
# tools/neutraltest.sh <abs-patch> [checks...] : apply a behaviour-preserving change to /repo, run every quick check, always revert.
# Any VIOLATION here is a false alarm of the machinery (or the change is not as harmless as claimed).
set -u
patch=$1; shift
checks=${*:-C01 C02 C03 C04 C05 C06 C07 C08 C09 C10 C11 C12 C13 C14 C15 C16 C17 C18 C19 C20}
cd /repo || exit 2
if [ -n "$(git status --porcelain)" ]; then echo "/repo not clean"; exit 2; fi
trap 'cd /repo && git reset -q --hard HEAD && git clean -fdq' EXIT
git apply "$patch" || { echo "PATCH DOES NOT APPLY"; exit 2; }
cd /verif
for c in $checks; do
  out=$(./run.sh $c quick 2>&1)
  rc=$?
  n=$(echo "$out" | grep -c '^VIOLATION')
  echo "$c exit=$rc violations=$n $(echo "$out" | grep '^VIOLATION' | head -2 | cut -c1-260)"
done
