#!/usr/bin/env python3
# Generates the go -overlay file that swaps "sync" for the vsync shim in cache, server and database/inmemory.
# Only the import line is rewritten; everything else is the file from /repo's working tree.
import json,os,re,sys,glob
out=sys.argv[1]
os.makedirs(out,exist_ok=True)
rep={}
for pkg in ["cache","server","database/inmemory"]:
    for f in sorted(glob.glob("/repo/%s/*.go"%pkg)):
        if f.endswith("_test.go"): continue
        src=open(f).read()
        if not re.search(r'^\s*"sync"\s*$',src,re.M): continue
        new=re.sub(r'^(\s*)"sync"\s*$',r'\1sync "github.com/ovn-org/libovsdb/verifshim/vsync"',src,count=1,flags=re.M)
        dst=os.path.join(out,pkg.replace("/","_")+"_"+os.path.basename(f))
        open(dst,"w").write(new)
        rep[f]=dst
# client/client.go: a scheduling point is announced before every blocking lock acquisition, error-channel send and
# wait-group wait (same line, so that line numbers are those of /repo); nothing else changes
f="/repo/client/client.go"
lines=open(f).read().split("\n")
npts=0
for i,l in enumerate(lines):
    st=l.strip()
    if re.fullmatch(r'[\w\.\(\)]+\.R?Lock\(\)',st) or st in ("o.errorCh <- err","o.handlerShutdown.Wait()"):
        ind=l[:len(l)-len(l.lstrip())]
        lines[i]='%sverifPoint("client.go:%d %s"); %s'%(ind,i+1,st.replace('"',"'"),st)
        npts+=1
dst=os.path.join(out,"client_client.go")
open(dst,"w").write("\n".join(lines))
rep[f]=dst
rep["/repo/client/verif_points.go"]="/verif/mc/shim/points/verif_points.go"
rep["/repo/verifshim/vsync/vsync.go"]="/verif/mc/shim/vsync/vsync.go"
json.dump({"Replace":rep},open(os.path.join(out,"overlay.json"),"w"),indent=1)
print(len(rep)-3,"files rewritten for sync,",npts,"points announced in client.go")
