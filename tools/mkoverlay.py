#!/usr/bin/env python3
# Generates the go -overlay file that swaps "sync" for the vsync shim in cache, server and database/inmemory.
# Only the import line is rewritten; everything else is the file from /repo's working tree.
import json,os,re,sys,glob
out=sys.argv[1]
os.makedirs(out,exist_ok=True)
rep={}
for pkg in ["cache","server","database/inmemory"]:
    for f in sorted(glob.glob("/repo/%s/*.go"%pkg)):
        if f.endswith("_test.go"): continue
        src=open(f).read()
        if not re.search(r'^\s*"sync"\s*$',src,re.M): continue
        new=re.sub(r'^(\s*)"sync"\s*$',r'\1sync "github.com/ovn-org/libovsdb/verifshim/vsync"',src,count=1,flags=re.M)
        dst=os.path.join(out,pkg.replace("/","_")+"_"+os.path.basename(f))
        open(dst,"w").write(new)
        rep[f]=dst
rep["/repo/verifshim/vsync/vsync.go"]="/verif/mc/shim/vsync/vsync.go"
json.dump({"Replace":rep},open(os.path.join(out,"overlay.json"),"w"),indent=1)
print(len(rep)-1,"files rewritten")
