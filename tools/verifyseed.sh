#!/bin/bash
# tools/verifyseed.sh <seed-src-dir> <worktree> : confirm a seeded change (suite passes with it, demo fails with it, demo passes without it)
set -u
src=$1; wt=$2
export GOFLAGS=-mod=mod GOPROXY=off GOSUMDB=off GOTOOLCHAIN=local
cd "$wt" || exit 2
git checkout -q -- . ; git clean -fdq
demo=$(ls $src/demo*_test.go $src/demo_test.go 2>/dev/null | head -1)
[ -z "$demo" ] && { echo "no demo test"; exit 2; }
cmd=$(grep -m1 -o 'go test [^|]*' "$demo" | sed 's/2>.*//')
dir=$(echo "$cmd" | grep -o '\./[a-z/]*' | tail -1)
[ -z "$dir" ] && { echo "cannot parse demo dir from: $cmd"; exit 2; }
echo "demo dir=$dir cmd=$cmd"
git apply "$src/patch.diff" || { echo "patch does not apply"; exit 2; }
go test -vet=off -count=1 $(go list ./... 2>/dev/null | grep -v -e /example/ -e /test/ovs -e /modelgen) >/tmp/vs.$$.suite 2>&1; suite=$?
cp "$demo" "$dir/zz_seed_demo_test.go"
eval "$cmd" >/tmp/vs.$$.with 2>&1; with=$?
git checkout -q -- .
eval "$cmd" >/tmp/vs.$$.without 2>&1; without=$?
rm -f "$dir/zz_seed_demo_test.go"; git clean -fdq
echo "suite_with_patch_exit=$suite demo_with_patch_exit=$with demo_without_patch_exit=$without"
if [ $suite -eq 0 ] && [ $with -ne 0 ] && [ $without -eq 0 ]; then echo "SEED CONFIRMED"; rm -f /tmp/vs.$$.*; exit 0; fi
echo "SEED NOT CONFIRMED"; tail -5 /tmp/vs.$$.suite /tmp/vs.$$.with /tmp/vs.$$.without; rm -f /tmp/vs.$$.*; exit 1
