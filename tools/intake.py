#!/usr/bin/env python3
# tools/intake.py <seed-id> "<what it needs to manifest>" : confirm a sub-agent's seed in its worktree, store it under seeded/, drop the worktree
import json,os,subprocess,sys,shutil
sid,need=sys.argv[1],sys.argv[2]
src,wt='/tmp/seed-'+sid,'/tmp/wt-'+sid
p=subprocess.run(['/verif/tools/verifyseed.sh',src,wt],capture_output=True,text=True)
print(p.stdout[-600:],p.stderr[-300:])
ok='SEED CONFIRMED' in p.stdout
d='/verif/seeded/'+sid
if ok:
    os.makedirs(d,exist_ok=True)
    for f in os.listdir(src):
        if f!='prompt.txt' and os.path.isfile(src+'/'+f): shutil.copy(src+'/'+f,d+'/'+f)
    json.dump({"property":sid[:3],"origin":"independent sub-agent given only the property text and a scratch worktree of /repo (current tree)","needs_to_manifest":need,"confirmed":"tools/verifyseed.sh: existing suite passes with patch (exit 0), demonstration fails with patch, passes without","detected_by":[],"checks_run":[]},open(d+'/meta.json','w'),indent=1)
    subprocess.run(['git','-C','/repo','worktree','remove','--force',wt])
    shutil.rmtree(src)
print('CONFIRMED' if ok else 'NOT CONFIRMED',sid)
