#!/usr/bin/env python3
# tools/seedall.py [seed ...] : run each seeded change against the check(s) of its property, record outcome in meta.json
import json,os,subprocess,sys,re
root='/verif/seeded'
names=sys.argv[1:] or sorted(os.listdir(root))
claimed={c['property_id'] for c in json.load(open('/verif/MANIFEST.json'))['checks']}
for n in names:
    d=os.path.join(root,n)
    meta=json.load(open(d+'/meta.json'))
    prop=meta['property']
    checks=[prop]+[c for c in meta.get('also_run',[])]
    for c in checks:
        if c not in claimed:
            print(n,c,'check not built yet'); continue
        patch=d+'/patch.rebased.diff' if os.path.exists(d+'/patch.rebased.diff') else d+'/patch.diff'
        p=subprocess.run(['/verif/tools/seedtest.sh',patch,c,'quick'],capture_output=True,text=True)
        out=p.stdout+p.stderr
        viol=re.findall(r'^VIOLATION property=(\S+) .*?sig=(\S+)',out,re.M)
        applied='PATCH DOES NOT APPLY' not in out
        rec={"check":c,"tier":"quick","patch_applied":applied,"violations":len(viol),"first_sigs":[v[1] for v in viol[:3]],"exit":re.findall(r'exit=(\d+)',out)[-1:] }
        meta['checks_run']=[r for r in meta.get('checks_run',[]) if r.get('check')!=c]+[rec]
        if viol and c not in meta.get('detected_by',[]): meta.setdefault('detected_by',[]).append(c)
        if not viol and c in meta.get('detected_by',[]): meta['detected_by'].remove(c)
        print(n,c,'applied' if applied else 'NOT APPLIED','violations=%d'%len(viol),[v[1] for v in viol[:2]])
    json.dump(meta,open(d+'/meta.json','w'),indent=1)
