#!/bin/bash
# tools/thoroughall.sh [Cxx ...] : builds once from /repo's current tree into its own directory, then runs the thorough
# tier of the given checks (default: all) one after the other, without rebuilding (so that seed tests, which patch /repo and
# rebuild .bin, can go on meanwhile). Logs in /tmp/thorough/<id>.log, summary lines on stdout.
set -u
cd /verif
export GOFLAGS=-mod=mod GOPROXY=off GOSUMDB=off GOTOOLCHAIN=local GOCACHE=/verif/.gocache CGO_ENABLED=0 GOMEMLIMIT=12GiB
export VERIF_BIN=/verif/.bin-thorough VERIF_OVL=/verif/.ovl-thorough
[ -n "$(git -C /repo status --porcelain)" ] && { echo "/repo not clean"; exit 2; }
./run.sh setup || exit 2
echo "built from /repo $(git -C /repo rev-parse --short HEAD)"
mkdir -p /tmp/thorough
ids=${*:-C03 C06 C08 C09 C10 C11 C12 C13 C15 C16 C19 C20 C14 C17 C18 C01 C02 C04 C07 C05}
for id in $ids; do
  b=vcheck; case $id in C01|C14|C17|C18) b=vsched;; esac
  [ $id = C18 ] && export VERIF_RACE_BIN=$VERIF_BIN/vrace
  t0=$(date +%s)
  nice -n 5 $VERIF_BIN/$b $id thorough > /tmp/thorough/$id.log 2>&1
  rc=$?
  echo "$id exit=$rc wall=$(( $(date +%s)-t0 ))s $(grep -c '^VIOLATION' /tmp/thorough/$id.log) violation lines; $(grep "^$id thorough:" /tmp/thorough/$id.log | cut -c1-160)"
done
echo ALL-DONE
