#!/bin/bash
# tools/seedtest.sh <patch.diff> <Cxx> [tier]   : apply a seeded change to /repo, run the check, always revert.
set -u
patch=$1; id=$2; tier=${3:-quick}
cd /repo || exit 2
if [ -n "$(git status --porcelain)" ]; then echo "/repo not clean"; exit 2; fi
trap 'cd /repo && git reset -q --hard HEAD && git clean -fdq' EXIT
git apply "$patch" 2>/dev/null || git apply -C1 "$patch" 2>/dev/null || git apply --3way "$patch" 2>/dev/null || { echo "PATCH DOES NOT APPLY"; exit 2; }
if grep -rq '^<<<<<<< ' --include=*.go . ; then echo "PATCH DOES NOT APPLY (conflict)"; exit 2; fi
cd /verif && ./run.sh "$id" "$tier"
echo "exit=$?"
