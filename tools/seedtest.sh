#!/bin/bash
# tools/seedtest.sh <patch.diff> <Cxx> [tier]   : apply a seeded change to /repo, run the check, always revert.
set -u
patch=$1; id=$2; tier=${3:-quick}
cd /repo || exit 2
if [ -n "$(git status --porcelain)" ]; then echo "/repo not clean"; exit 2; fi
git apply --3way "$patch" 2>/dev/null || git apply "$patch" || { echo "PATCH DOES NOT APPLY"; git checkout -- . ; exit 2; }
git reset -q 2>/dev/null
trap 'cd /repo && git checkout -- . && git clean -fdq' EXIT
cd /verif && ./run.sh "$id" "$tier"
echo "exit=$?"
