#!/usr/bin/env python3
# Regenerates /verif/MANIFEST.json from the table below.
import json,subprocess
CHECKS={
 "C05":("model_checking","explicit-state exploration of the real cache",
   "Every valid table content over a small row universe is a state of the real cache.RowCache; every batch (net change between two valid contents) is applied in every row order through ApplyCacheUpdate / Populate2 / Populate / direct calls, chained to depth 2, and after each batch every index and every lookup API is compared with a full scan. Exhaustive within the stated universe; the right level because the property is an invariant over all batches and orders, which is a finite space once rows and values are bounded.",
   "Trusted: the scan oracle (recomputes index keys from the row values), the row universe (6 valuations, 3 rows, 8 index configurations) as representative of index shapes; multi-column keys compared as partitions.","4 C05"),
}
PENDING={}
props=[json.loads(l)["id"] for l in open("/verif/properties.jsonl")]
hooks=subprocess.run("git -C /repo log --format=%h --grep='^verif hooks' ",shell=True,capture_output=True,text=True).stdout.split()
m={"version":1,
 "setup_cmd":"cd /verif && ./run.sh setup",
 "hooks":{"guard":"verif (Go build tag)","enable":"go build -tags verif (run.sh builds mc/cmd/vcheck against /repo via a replace directive)",
   "baseline_off_cmd":"cd /repo && GOFLAGS=-mod=mod GOPROXY=off GOSUMDB=off GOTOOLCHAIN=local go test -mod=mod -json -vet=off -count=1 -timeout 25m ./...",
   "source_commits":hooks,"add_only":True},
 "engines":[
   {"name":"bfs/enum","path":"mc/checks","serves_properties":sorted(CHECKS),"kind_free_text":"explicit-state / bounded-exhaustive exploration that executes the real libovsdb code for every transition; oracles are scans and an executable RFC 7047 reference (mc/refmodel)"}],
 "checks":[], "not_applicable":[],
 "notes":"All checks are ./run.sh <id> <tier>; run.sh rebuilds mc/cmd/vcheck from /repo's working tree (go build, -tags verif). Known findings: KNOWN_FINDINGS.txt. Seeded changes used to test the checks: seeded/."}
for p in props:
    if p in CHECKS:
        lvl,tech,text,note,ref=CHECKS[p]
        m["checks"].append({"property_id":p,"quick_cmd":"./run.sh %s quick"%p,"thorough_cmd":"./run.sh %s thorough"%p,
          "evidence_file":"/verif/evidence/%s.json"%p,"replay_cmd_template":"cat {path}","engine":"bfs/enum",
          "level_claimed":{"category":lvl,"text":text,"design_ref":"DESIGN.md §"+ref},"level_note":note,"technique":tech})
    else:
        m["not_applicable"].append({"property_id":p,"reason":PENDING.get(p,"check not built yet in this round (planned, see DESIGN.md §4); not claimed until it exists and passes")})
json.dump(m,open("/verif/MANIFEST.json","w"),indent=1)
print("checks:",len(m["checks"]),"not_applicable:",len(m["not_applicable"]))
