#!/usr/bin/env python3
# Regenerates /verif/MANIFEST.json from the table below.
import json,subprocess
PENDING={}
CHECKS={
 "C10":("exploration","bounded-exhaustive enumeration of value pairs through the public update API",
   "For every column type of the S-types schema (23 columns) every ordered pair (a,b) of the value universe - sets as every ordered arrangement of every subset of 4 (thorough 5) elements plus nil and empty, maps over 3 (4) keys x {absent,v1,v2,default} plus nil, optionals incl. a pointer to the zero value, atoms - the difference is computed with ModelUpdates.AddOperation(update) after a JSON round trip of the operation, must be empty iff a==b as sets, is sent through JSON and applied with AddRowUpdate2 to a fresh copy of a and must give b; exact snapshots (element order, nil vs empty) of the input model and of the operation row must be unchanged; and every (value, arbitrary difference) pair must follow the update2 peer rules.",
   "Trusted: the peer-rule oracle applyUpdate2 (ovsdb-server.7); exhaustive within the universes; random larger values named in the quantifier are not used (enumeration only).","4 C10"),
 "C11":("model_checking","exhaustive enumeration of operation sequences vs reference model",
   "Per column type: every sequence of length 2..3 (thorough 4) over {insert(v), update(col:=v), update of a second column, update of both, every mutator with every argument, delete} from every start state (row absent / present with two values), each prefix aggregated both by repeated AddOperation on one ModelUpdates and by Merge of per-operation updates, observed through ForEachModelUpdate / ForEachRowUpdate / GetModel / GetRow and compared with the reference model's net change (first old, last new, modify applied to first old = last new, cancellation, insert+changes = one insert, anything+delete = one delete of the original).",
   "Trusted: mc/refmodel for single-operation semantics; the current model handed to each AddOperation is rebuilt from the reference state (API contract). The merge with reference-driven updates (ProcessReferences) is exercised by C04/C07, not here.","4 C11"),
 "C02":("model_checking","explicit-state search over the real server + failing-transaction alphabet",
   "Breadth-first search over histories of committed transactions on the real in-memory server; from every state every failing transaction (20 failure causes x prefixes of successful operations x suffix) and every rejected alphabet transaction is executed with two recording monitors attached; rows + reference index must be unchanged, no monitor notified, reply shape legal, and six sentinel transactions must behave exactly as on a replay that never saw the failure. Exhaustive within the alphabet and depth.",
   "Trusted: canonical dump of rows and of GetReferences; the failing alphabet as representative of failure causes; depth 2 (quick) / 3 (thorough).","4 C02"),
 "C03":("model_checking","explicit-state search over the real server vs executable RFC 7047 reference",
   "States are table contents over a schema with every column type (atoms, enum, optionals, sets, maps with every key/value type, an immutable column); from every state ~1500 template transactions are executed on the real server: every condition function x column x argument (through select and delete), every mutator x column x argument, update/insert of every universe value, conjunctions, several mutations of one column, read-your-writes chains, select with columns, immutable columns, zero-timeout waits in three separately signed classes. Per-operation results and resulting contents of every ACCEPTED transaction are compared with mc/refmodel; accepted-but-reference-rejects is a violation, the converse is counted per class.",
   "Trusted: mc/refmodel as the reading of RFC 7047 5.1-5.2; value universes of 3-5 values per column; _uuid tolerated in projected selects. The model-API path (Create/Where().Update...) is exercised by C08 and C15, not here.","4 C03"),
 "C08":("exploration","bounded-exhaustive enumeration against a brute-force RFC 7047 evaluator",
   "Every table content of <= 3 rows over a 4-row universe (12 column types) x every single well-typed condition (8 functions x column x argument universe incl. empty sets/maps, unset optionals, _uuid, values no row has), a large set of pairs (thorough: all pairs of the equality-like conditions plus triples) x 8 (thorough 11) index configurations: RowsByCondition on one live cache per configuration is compared with a brute-force evaluation and thereby across configurations; afterwards the cache's indexes must still agree with a scan (selecting must not mutate); WhereAll/WhereAny must equal AND/OR and the delete operations they generate, executed on a real server holding the same rows, must remove exactly the rows List() reported.",
   "Trusted: refmodel.EvalCond; enumeration is exhaustive for singles, sampled deterministically (fixed stride, no randomness) for pairs in the quick tier and stated as such.","4 C08"),
 "C04":("model_checking","explicit-state search over the real server vs executable RFC 7047 reference",
   "Breadth-first search (states = histories replayed on a fresh real server, deduplicated on rows + reference index) over an alphabet that adds/moves/removes references in every position (scalar, optional, set, map key, map value; strong/weak; root/non-root/self/cycle/chain) on two schemas; after every commit the invariants are recomputed from stored rows only, the rows are compared with the reference model's unique commit fixpoint, commit-time rejections are compared, and every transaction is replayed on a fresh database loaded with exactly the stored rows (history independence).",
   "Trusted: mc/refmodel (commit fixpoint, self references count), canonicalisation in mc/canon + mc/sys; alphabet of ~70 (quick) transaction templates over a 10-UUID pool, depth 3 / 4.","4 C04"),
 "C05":("model_checking","explicit-state exploration of the real cache",
   "Every valid table content over a small row universe is a state of the real cache.RowCache; every batch (net change between two valid contents) is applied in every row order through ApplyCacheUpdate / Populate2 / Populate / direct calls, chained to depth 2, and after each batch every index and every lookup API is compared with a full scan. Exhaustive within the stated universe; the right level because the property is an invariant over all batches and orders, which is a finite space once rows and values are bounded.",
   "Trusted: the scan oracle (recomputes index keys from the row values), the row universe (6 valuations, 3 rows, 8 index configurations) as representative of index shapes; multi-column keys compared as partitions.","4 C05"),
 "C06":("model_checking","explicit-state search over the real server vs reference model",
   "Breadth-first search over histories (inserts, updates, swaps, hand-overs, delete+insert, mutate over all rows, garbage-collected indexed rows) on a schema with indexes [a], [b,c] (optional c), [n] and an indexed non-root table; every transaction is compared with the reference model (final-state duplicate <=> rejected with constraint violation as extra element; transient duplicates accepted), the committed rows are scanned for duplicates, and every accepted multi-operation transaction is additionally committed with every order of its row callbacks, after which the database's own indexes must find every row.",
   "Trusted: mc/refmodel index rule; depth 2 / 3; up to 3 row callbacks permuted.","4 C06"),
 "C07":("model_checking","explicit-state search over the real server with recording monitor sinks",
   "From every explored state every alphabet transaction is executed with 40 (quick) monitors registered through the server's own Monitor/MonitorCond handlers on recording rpc2 codecs: all tables x select-flag sets, table subsets x column subsets, both encodings. The notification exactly as it would go on the wire is decoded and applied, with an oracle written from RFC 7047 / ovsdb-server.7, to the monitored view before the transaction; the result must be the view after it restricted to the selected kinds of change; at most one notification, none for rejected transactions, right method name and id, no unrequested table or column.",
   "Trusted: the oracle's update/update2 application rules (omitted column = default); empty containers are counted, not flagged; monitor_cond_since is not covered here (the in-tree server never sends update3).","4 C07"),
}
 
props=[json.loads(l)["id"] for l in open("/verif/properties.jsonl")]
hooks=subprocess.run("git -C /repo log --format=%h --grep='^verif hooks' ",shell=True,capture_output=True,text=True).stdout.split()
m={"version":1,
 "setup_cmd":"cd /verif && ./run.sh setup",
 "hooks":{"guard":"verif (Go build tag)","enable":"go build -tags verif (run.sh builds mc/cmd/vcheck against /repo via a replace directive)",
   "baseline_off_cmd":"cd /repo && GOFLAGS=-mod=mod GOPROXY=off GOSUMDB=off GOTOOLCHAIN=local go test -mod=mod -json -vet=off -count=1 -timeout 25m ./...",
   "source_commits":hooks,"add_only":True},
 "engines":[
   {"name":"bfs/enum","path":"mc/checks","serves_properties":sorted(CHECKS),"kind_free_text":"explicit-state / bounded-exhaustive exploration that executes the real libovsdb code for every transition; oracles are scans and an executable RFC 7047 reference (mc/refmodel)"}],
 "checks":[], "not_applicable":[],
 "notes":"All checks are ./run.sh <id> <tier>; run.sh rebuilds mc/cmd/vcheck from /repo's working tree (go build, -tags verif). Known findings: KNOWN_FINDINGS.txt. Seeded changes used to test the checks: seeded/."}
for p in props:
    if p in CHECKS:
        lvl,tech,text,note,ref=CHECKS[p]
        m["checks"].append({"property_id":p,"quick_cmd":"./run.sh %s quick"%p,"thorough_cmd":"./run.sh %s thorough"%p,
          "evidence_file":"/verif/evidence/%s.json"%p,"replay_cmd_template":"cat {path}","engine":"bfs/enum",
          "level_claimed":{"category":lvl,"text":text,"design_ref":"DESIGN.md §"+ref},"level_note":note,"technique":tech})
    else:
        m["not_applicable"].append({"property_id":p,"reason":PENDING.get(p,"check not built yet in this round (planned, see DESIGN.md §4); not claimed until it exists and passes")})
json.dump(m,open("/verif/MANIFEST.json","w"),indent=1)
print("checks:",len(m["checks"]),"not_applicable:",len(m["not_applicable"]))
