#!/bin/bash
# tools/reverttest.sh <fix-commit> <Cxx> [tier] : undo a fix in the working tree, run the check, restore.
set -u
c=$1; id=$2; tier=${3:-quick}
cd /repo || exit 2
[ -n "$(git status --porcelain)" ] && { echo "/repo not clean"; exit 2; }
git show "$c" | git apply -R || { echo "cannot revert $c"; git checkout -- .; exit 2; }
trap 'cd /repo && git checkout -- . && git clean -fdq' EXIT
cd /verif && ./run.sh "$id" "$tier"
echo "exit=$?"
