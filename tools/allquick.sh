#!/bin/bash
# tools/allquick.sh [tier]: every check of the manifest, one after the other; one summary line each
cd /verif
tier=${1:-quick}
for i in $(seq -w 1 20); do
  id=C$i; t0=$(date +%s)
  out=$(./run.sh $id $tier 2>&1); rc=$?
  echo "$id exit=$rc wall=$(( $(date +%s)-t0 ))s violations=$(echo "$out" | grep -c '^VIOLATION') known=$(echo "$out" | grep -c '^KNOWN-FINDING')"
  echo "$out" | grep '^VIOLATION' | cut -c1-400
done
echo ALL-DONE
