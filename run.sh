#!/bin/bash
# ./run.sh setup | ./run.sh <Cxx> <quick|thorough>     (cwd=/verif)
set -u
cd "$(dirname "$0")"
export GOFLAGS=-mod=mod GOPROXY=off GOSUMDB=off GOTOOLCHAIN=local
export GOCACHE=/verif/.gocache
export CGO_ENABLED=0
BIN=/verif/.bin
mkdir -p "$BIN" /verif/evidence /verif/replays

build() { # rebuilds from /repo's current working tree (go build recompiles edited sources)
  (cd /verif/mc && cp -f /repo/go.sum go.sum 2>/dev/null; go build -tags verif -o "$BIN/vcheck" ./cmd/vcheck) || { echo "BUILD FAILED (vcheck against /repo working tree)"; exit 2; }
}

case "${1:-}" in
  setup)
    build
    echo "setup ok"
    ;;
  C[0-9][0-9])
    id=$1; tier=${2:-${VERIF_TIER:-quick}}
    build
    shift; shift
    exec "$BIN/vcheck" "$id" "$tier" "$@"
    ;;
  *)
    echo "usage: $0 setup | <Cxx> <quick|thorough>"; exit 2;;
esac
