#!/bin/bash
# ./run.sh setup | ./run.sh <Cxx> <quick|thorough>     (cwd=/verif)
set -u
cd "$(dirname "$0")"
export GOFLAGS=-mod=mod GOPROXY=off GOSUMDB=off GOTOOLCHAIN=local
export GOCACHE=/verif/.gocache
export CGO_ENABLED=0
# the checks allocate fast on 16 threads (every explored transaction builds fresh caches): without a soft limit the collector
# lets the heap run far ahead of the live data (an out-of-memory kill would take the evidence with it)
export GOMEMLIMIT=${GOMEMLIMIT:-12GiB}
BIN=${VERIF_BIN:-/verif/.bin}   # a long run started next to other work gets its own binaries (workers re-execute the binary by path)
OVL=${VERIF_OVL:-/verif/.ovl}
mkdir -p "$BIN" /verif/evidence /verif/replays

build() { # rebuilds from /repo's current working tree (go build recompiles edited sources)
  (cd /verif/mc && cp -f /repo/go.sum go.sum 2>/dev/null; go build -tags verif -o "$BIN/vcheck" ./cmd/vcheck) || { echo "BUILD FAILED (vcheck against /repo working tree)"; exit 2; }
}

build_sched() { # second binary: sync in cache/server/inmemory replaced by the scheduler shim (go build -overlay)
  python3 /verif/tools/mkoverlay.py "$OVL" >/dev/null || { echo "OVERLAY GENERATION FAILED"; exit 2; }
  (cd /verif/mc && go build -tags "verif vsched" -overlay "$OVL/overlay.json" -o "$BIN/vsched" ./cmd/vcheck) || { echo "BUILD FAILED (vsched with overlay)"; exit 2; }
}

build_race() { # third binary, for C18's auxiliary pass: the same program built with the race detector (needs cgo)
  (cd /verif/mc && CGO_ENABLED=1 go build -race -tags verif -o "$BIN/vrace" ./cmd/vcheck) || { echo "RACE BUILD FAILED (C18 runs without its race-detector pass)"; return 1; }
}

case "${1:-}" in
  setup)
    build
    build_sched
    build_race
    echo "setup ok"
    ;;
  C01|C14|C17|C18)
    id=$1; tier=${2:-${VERIF_TIER:-quick}}
    build_sched
    if [ "$id" = C18 ]; then build_race && export VERIF_RACE_BIN="$BIN/vrace"; fi
    shift; shift
    exec "$BIN/vsched" "$id" "$tier" "$@"
    ;;
  C[0-9][0-9])
    id=$1; tier=${2:-${VERIF_TIER:-quick}}
    build
    shift; shift
    exec "$BIN/vcheck" "$id" "$tier" "$@"
    ;;
  *)
    echo "usage: $0 setup | <Cxx> <quick|thorough>"; exit 2;;
esac
